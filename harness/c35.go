package main

// C35 — Byron merkle root. Ops carry the item list (explicitly or as a
// (count, seed, item length) triple both sides expand identically); Run calls
// the real byron.MerkleRoot. The `b2b*` ops validate the Lean driver's
// Blake2b (lean/GV/Lib/Blake2b.lean) against the library the Go code hashes with.

import (
	"encoding/binary"
	"encoding/hex"
	"fmt"
	"strconv"
	"strings"
	"time"

	"github.com/blinklabs-io/gouroboros/ledger/byron"
	"github.com/blinklabs-io/gouroboros/ledger/common"
)

func init() {
	register(&Prop{ID: "C35", Gen: genC35, Run: crashSafe("C35", runC35), Timeout: 30 * time.Second})
}

// item i of a derived list: byte j is byte j%8 (little endian) of the 64-bit word
// seed + i*0x9E3779B97F4A7C15 + (j/8)*0xD1B54A32D192ED03
func c35SeqItem(seed uint64, i int, ln int) []byte {
	out := make([]byte, ln)
	var b [8]byte
	for j := 0; j < ln; j++ {
		if j%8 == 0 {
			w := seed + uint64(i)*0x9E3779B97F4A7C15 + uint64(j/8)*0xD1B54A32D192ED03
			binary.LittleEndian.PutUint64(b[:], w)
		}
		out[j] = b[j%8]
	}
	return out
}

func c35SeqMsg(n int, seed uint64) []byte {
	m := make([]byte, n)
	for i := range m {
		// computed over naturals on the Lean side; seed < 2^32 keeps this exact
		m[i] = byte(((seed+uint64(i))*167 + uint64(i)/256) % 256)
	}
	return m
}

// lengths around every power of two up to max
func c35Lengths(max int) []int {
	ls := []int{0, 1, 2, 3}
	for p := 4; p <= max; p *= 2 {
		ls = append(ls, p-1, p, p+1)
		if p+p/2 <= max {
			ls = append(ls, p+p/2-1, p+p/2, p+p/2+1)
		}
	}
	return ls
}

func genC35(r *Rand, n int, tier string, emit func(string)) {
	// 1. Blake2b validation (driver glue)
	for _, ln := range []int{0, 1, 2, 31, 32, 33, 63, 64, 65, 127, 128, 129, 255, 256, 257, 383, 384, 385, 1000} {
		emit(fmt.Sprintf("b2bseq %d %d", ln, r.Intn(1<<30)))
	}
	emit("b2b -")
	emit("b2b224 -")
	for i := 0; i < 20; i++ {
		emit("b2b " + hexs(r.Bytes(r.Intn(200))))
		emit("b2b224 " + hexs(r.Bytes(r.Intn(200))))
	}
	// 2. every length 0..L once, explicit random items (lengths 0..40 bytes)
	L := 70
	maxSeq := 1 << 11
	if tier == "thorough" {
		L = 600
		maxSeq = 1 << 17
	}
	item := func() []byte {
		switch r.Intn(10) {
		case 0:
			return []byte{}
		case 1: // looks like a leaf pre-image
			return append([]byte{0}, r.Bytes(r.Intn(4))...)
		case 2: // looks like a branch pre-image: 1 || 32 || 32
			return append([]byte{1}, r.Bytes(64)...)
		case 3:
			return r.Bytes(32)
		default:
			return r.Bytes(1 + r.Intn(40))
		}
	}
	explicit := func(k int, dup bool) {
		var sb strings.Builder
		fmt.Fprintf(&sb, "root %d", k)
		var first []byte
		for i := 0; i < k; i++ {
			it := item()
			if i == 0 {
				first = it
			}
			if dup && r.Chance(1, 2) {
				it = first
			}
			sb.WriteByte(' ')
			sb.WriteString(hexs(it))
		}
		emit(sb.String())
	}
	for k := 0; k <= L; k++ {
		explicit(k, false)
	}
	// 2b. item lengths around the hash's internal buffer sizes (the tag byte shifts them by one):
	// 127/128/129 = one Blake2b block, 255/256/257 = two, plus a long item
	for _, il := range []int{62, 63, 64, 65, 126, 127, 128, 129, 254, 255, 256, 257, 258, 383, 384, 1000} {
		emit(fmt.Sprintf("rootseq %d %d %d", Pick(r, 1, 2, 3, 5), r.U64()>>1, il))
	}
	// 2c. counts well past 128 with items of those lengths (a few each)
	for _, k := range []int{129, 130, 200, 257, 513, 777, 1025, 1100} {
		emit(fmt.Sprintf("rootseq %d %d %d", k, r.U64()>>1, Pick(r, 255, 256, 257, 127, 128, 33)))
	}
	// 3. boundary lengths (2^k-1, 2^k, 2^k+1, 1.5·2^k ±1) with derived items
	for _, k := range c35Lengths(maxSeq) {
		emit(fmt.Sprintf("rootseq %d %d %d", k, r.U64()>>1, Pick(r, 0, 1, 4, 8)))
	}
	// 4. random fill up to n
	for i := 0; i < n; i++ {
		switch r.Intn(4) {
		case 0:
			explicit(r.Intn(L+1), r.Chance(1, 3))
		case 1:
			ls := c35Lengths(maxSeq / 8)
			emit(fmt.Sprintf("rootseq %d %d %d", ls[r.Intn(len(ls))], r.U64()>>1, r.Intn(9)))
		case 2:
			emit(fmt.Sprintf("rootseq %d %d %d", r.Intn(maxSeq/8), r.U64()>>1, r.Intn(9)))
		default:
			explicit(r.Intn(20), r.Chance(1, 3))
		}
	}
}

func runC35(op string) string {
	f := strings.Fields(op)
	if len(f) == 0 {
		return "bad-op"
	}
	switch f[0] {
	case "root":
		if len(f) < 2 {
			return "bad-op"
		}
		k, err := strconv.Atoi(f[1])
		if err != nil || len(f) != 2+k {
			return "bad-op"
		}
		items := make([][]byte, k)
		for i := 0; i < k; i++ {
			b, ok := unhex(f[2+i])
			if !ok {
				return "bad-op"
			}
			items[i] = b
		}
		root := byron.MerkleRoot(items)
		return hex.EncodeToString(root[:])
	case "rootseq":
		if len(f) != 4 {
			return "bad-op"
		}
		n, e1 := strconv.Atoi(f[1])
		seed, e2 := strconv.ParseUint(f[2], 10, 64)
		ln, e3 := strconv.Atoi(f[3])
		if e1 != nil || e2 != nil || e3 != nil || n < 0 || ln < 0 {
			return "bad-op"
		}
		items := make([][]byte, n)
		for i := range items {
			items[i] = c35SeqItem(seed, i, ln)
		}
		root := byron.MerkleRoot(items)
		return hex.EncodeToString(root[:])
	case "b2b", "b2b224":
		if len(f) != 2 {
			return "bad-op"
		}
		b, ok := unhex(f[1])
		if !ok {
			return "bad-op"
		}
		if f[0] == "b2b" {
			h := common.Blake2b256Hash(b)
			return hex.EncodeToString(h[:])
		}
		h := common.Blake2b224Hash(b)
		return hex.EncodeToString(h[:])
	case "b2bseq":
		if len(f) != 3 {
			return "bad-op"
		}
		n, e1 := strconv.Atoi(f[1])
		seed, e2 := strconv.ParseUint(f[2], 10, 64)
		if e1 != nil || e2 != nil || n < 0 || seed >= 1<<32 {
			return "bad-op"
		}
		h := common.Blake2b256Hash(c35SeqMsg(n, seed))
		return hex.EncodeToString(h[:])
	}
	return "bad-op"
}
