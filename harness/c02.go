package main

// C02 — decoders are total on arbitrary bytes.
//
// ops:  <entry> <hex>
// Generic layer (the Lean model predicts the answer exactly):
//
//	wf    -> ok <n> | err          StreamDecoder.Skip consumed length; cbor.Decode(b, &RawMessage) must agree
//	                               (except that it also validates built-in tags 0..3 on a tagged top-level item)
//	ainfo -> a=<cnt>,<hdr>,<indef> m=<cnt>,<hdr>,<indef>      cbor.ArrayInfo / cbor.MapInfo
//	hdr   -> a=<len>,<hdrlen>|err m=<len>,<hdrlen>|err        StreamDecoder.DecodeArrayHeader / DecodeMapHeader
//
// Typed layer (outcome class only; the model checks `ok -> the bytes start with a well-formed item`):
//
//	value lazy anyv diag diagtx diagblk sdiag sitems skipn idlist
//	block:<t> blockoff:<t> header:<t> tx:<t> txbody:<t> txout addr generr txerr
//	sum:<type> msg:<proto>
//
// Every call runs under recover (PANIC), the harness per-op timeout (TIMEOUT)
// and an allocation guard: bytes allocated during the call (runtime.MemStats
// TotalAlloc delta) above 32 MiB + 4096 x input length are reported as ALLOC.

import (
	"bytes"
	"encoding/hex"
	"fmt"
	"os"
	"path/filepath"
	"runtime"
	"strconv"
	"strings"
	"time"

	"github.com/blinklabs-io/gouroboros/cbor"
	"github.com/blinklabs-io/gouroboros/ledger"
	"github.com/blinklabs-io/gouroboros/ledger/common"
)

func init() {
	// generous per-op deadline: a verdict must not depend on machine load (a genuine loop never returns)
	register(&Prop{ID: "C02", Gen: genC02, Run: runC02, Timeout: 120 * time.Second})
}

func c02Typed(entry string, b []byte) (bool, bool) { // (known entry, ok)
	e := func(err error) (bool, bool) { return true, err == nil }
	name, arg, _ := strings.Cut(entry, ":")
	var t uint
	fmt.Sscan(arg, &t)
	switch name {
	case "value":
		var v cbor.Value
		_, err := cbor.Decode(b, &v)
		return e(err)
	case "lazy":
		var v cbor.LazyValue
		if _, err := cbor.Decode(b, &v); err != nil {
			return e(err)
		}
		_, err := v.Decode()
		if err == nil {
			_, err = v.MarshalJSON()
		}
		return e(err)
	case "anyv":
		var v any
		_, err := cbor.Decode(b, &v)
		return e(err)
	case "diag":
		_, err := cbor.Diagnose(b, cbor.DiagnosticOptions{})
		return e(err)
	case "diagtx":
		_, err := cbor.DiagnoseTransaction(b, cbor.DiagnosticOptions{})
		return e(err)
	case "diagblk":
		_, err := cbor.DiagnoseBlock(b, cbor.DiagnosticOptions{})
		return e(err)
	case "sdiag":
		d, err := cbor.NewStreamDecoder(b)
		if err != nil {
			return e(err)
		}
		_, err = d.DecodeAllDiagnostic()
		return e(err)
	case "sitems":
		d, err := cbor.NewStreamDecoder(b)
		if err != nil {
			return e(err)
		}
		_, _, err = d.DecodeArrayItems(func(i, off, ln int, data []byte) error {
			if d.RawBytes(off, ln) == nil && ln > 0 {
				return fmt.Errorf("item %d outside the data", i)
			}
			return nil
		})
		return e(err)
	case "skipn":
		d, err := cbor.NewStreamDecoder(b)
		if err != nil {
			return e(err)
		}
		_, _, err = d.SkipN(3)
		return e(err)
	case "idlist":
		_, err := cbor.DecodeIdFromList(b)
		if err == nil {
			_, err = cbor.ListLength(b)
		}
		return e(err)
	case "block":
		_, err := ledger.NewBlockFromCbor(t, b, common.VerifyConfig{SkipBodyHashValidation: t%2 == 0})
		return e(err)
	case "blockoff":
		_, err := ledger.NewBlockFromCborWithOffsets(t, b, common.VerifyConfig{SkipBodyHashValidation: true})
		return e(err)
	case "header":
		_, err := ledger.NewBlockHeaderFromCbor(t, b)
		return e(err)
	case "tx":
		_, err := ledger.NewTransactionFromCbor(t, b)
		return e(err)
	case "txbody":
		_, err := ledger.NewTransactionBodyFromCbor(t, b)
		return e(err)
	case "txout":
		_, err := ledger.NewTransactionOutputFromCbor(b)
		return e(err)
	case "addr":
		a, err := common.NewAddressFromBytes(b)
		if err == nil {
			_ = a.String()
		}
		return e(err)
	case "generr":
		_, err := ledger.NewGenericErrorFromCbor(b)
		return e(err)
	case "txerr":
		_, err := ledger.NewTxSubmitErrorFromCbor(b)
		return e(err)
	case "sum":
		st := sumTypeByName(arg)
		if st == nil {
			return false, false
		}
		_, err := st.decode(b)
		return e(err)
	case "msg":
		p := c04ProtoByName(arg)
		if p == nil {
			return false, false
		}
		_, err := c04Receive(p, b)
		return e(err)
	}
	return false, false
}

func infoStr(c int, h uint32, i bool) string { return fmt.Sprintf("%d,%d,%s", c, h, b01(i)) }

func runC02(op string) string {
	f := strings.Fields(op)
	if len(f) == 4 && f[0] == "rawb" {
		b, ok := unhex(f[1])
		off, e1 := strconv.ParseInt(f[2], 10, 64)
		ln, e2 := strconv.ParseInt(f[3], 10, 64)
		if !ok || e1 != nil || e2 != nil {
			return "bad-op"
		}
		d, err := cbor.NewStreamDecoder(b)
		if err != nil {
			return "err:streamdecoder"
		}
		res := d.RawBytes(int(off), int(ln))
		if res == nil {
			return "nil"
		}
		if off < 0 || off+int64(len(res)) > int64(len(b)) || !bytes.Equal(res, b[off:off+int64(len(res))]) {
			return fmt.Sprintf("MISMATCH RawBytes returned %d bytes that are not data[%d:]", len(res), off)
		}
		return fmt.Sprintf("%d,%d", off, off+int64(len(res)))
	}
	if len(f) != 2 {
		return "bad-op"
	}
	b, ok := unhex(f[1])
	if !ok {
		return "bad-op"
	}
	var ms0, ms1 runtime.MemStats
	runtime.ReadMemStats(&ms0)
	out := c02Call(f[0], b)
	runtime.ReadMemStats(&ms1)
	delta := ms1.TotalAlloc - ms0.TotalAlloc
	if delta > 32<<20+4096*uint64(len(b)) {
		return fmt.Sprintf("ALLOC %d bytes for %d input bytes (%s)", delta, len(b), out)
	}
	return out
}

func c02Call(entry string, b []byte) string {
	switch entry {
	case "wf":
		var raw cbor.RawMessage
		n, err := cbor.Decode(b, &raw)
		d, derr := cbor.NewStreamDecoder(b)
		if derr != nil {
			return "err:streamdecoder"
		}
		_, sn, serr := d.Skip()
		// Skip is the pure well-formedness check. Decode into RawMessage additionally validates the
		// content type of built-in tags 0..3 when the item itself is tagged; otherwise both must agree.
		if serr != nil {
			if err == nil {
				return fmt.Sprintf("MISMATCH skip err, decode ok %d", n)
			}
			return "err"
		}
		if err != nil {
			if len(b) > 0 && b[0]>>5 == 6 {
				return fmt.Sprintf("ok %d", sn)
			}
			return fmt.Sprintf("MISMATCH decode err, skip ok %d", sn)
		}
		// a self-described-CBOR tag (55799) in front of the item is consumed but not part of the RawMessage
		if sn != n || (len(raw) != n && !(len(b) > 0 && b[0]>>5 == 6)) {
			return fmt.Sprintf("MISMATCH decode %d raw %d skip %d", n, len(raw), sn)
		}
		return fmt.Sprintf("ok %d", n)
	case "ainfo":
		ac, ah, ai := cbor.ArrayInfo(b)
		mc, mh, mi := cbor.MapInfo(b)
		return "a=" + infoStr(ac, ah, ai) + " m=" + infoStr(mc, mh, mi)
	case "hdr":
		res := ""
		for _, isMap := range []bool{false, true} {
			d, err := cbor.NewStreamDecoder(b)
			if err != nil {
				return "err:streamdecoder"
			}
			var ln, off, hl int
			if isMap {
				ln, off, hl, err = d.DecodeMapHeader()
				res += " m="
			} else {
				ln, off, hl, err = d.DecodeArrayHeader()
				res += "a="
			}
			if err != nil {
				res += "err"
			} else {
				if off != 0 || d.Position() != hl {
					return fmt.Sprintf("MISMATCH header offset %d position %d hdrlen %d", off, d.Position(), hl)
				}
				res += fmt.Sprintf("%d,%d", ln, hl)
			}
		}
		return res
	}
	known, ok := c02Typed(entry, b)
	if !known {
		return "bad-op"
	}
	if ok {
		return "ok"
	}
	return "err"
}

// ---- generation

type c02Seed struct {
	entries []string
	b       []byte
}

func c02RepoDir() string {
	if d := os.Getenv("VERIF_REPO"); d != "" {
		return d
	}
	return "/repo"
}

func c02LoadHex(path string) []byte {
	raw, err := os.ReadFile(path)
	if err != nil {
		return nil
	}
	b, err := hex.DecodeString(strings.TrimSpace(string(raw)))
	if err != nil {
		return nil
	}
	return b
}

var c02Generic = []string{"wf", "value", "lazy", "anyv", "diag", "sdiag", "sitems", "skipn", "idlist", "ainfo", "hdr"}

func c02Seeds(r *Rand) (big []c02Seed, small []c02Seed) {
	dir := filepath.Join(c02RepoDir(), "internal", "testdata")
	blocks := []struct {
		file string
		t    uint
	}{
		{"byron_block.hex", ledger.BlockTypeByronMain}, {"shelley_block.hex", ledger.BlockTypeShelley},
		{"allegra_block.hex", ledger.BlockTypeAllegra}, {"mary_block.hex", ledger.BlockTypeMary},
		{"alonzo_block.hex", ledger.BlockTypeAlonzo}, {"babbage_block.hex", ledger.BlockTypeBabbage},
		{"conway_block.hex", ledger.BlockTypeConway},
	}
	for _, bl := range blocks {
		b := c02LoadHex(filepath.Join(dir, bl.file))
		if b == nil {
			continue
		}
		big = append(big, c02Seed{[]string{fmt.Sprintf("block:%d", bl.t), fmt.Sprintf("blockoff:%d", bl.t), "diagblk", "wf", "value", "diag"}, b})
		blk, err := ledger.NewBlockFromCbor(bl.t, b, common.VerifyConfig{SkipBodyHashValidation: true})
		if err != nil {
			continue
		}
		if hc := blk.Header().Cbor(); len(hc) > 0 {
			small = append(small, c02Seed{[]string{fmt.Sprintf("header:%d", bl.t), "wf", "value"}, hc})
		}
		for i, tx := range blk.Transactions() {
			if i >= 4 {
				break
			}
			tc := tx.Cbor()
			if len(tc) == 0 || len(tc) > 6000 {
				continue
			}
			small = append(small, c02Seed{[]string{fmt.Sprintf("tx:%d", bl.t), "diagtx", "wf", "value", "sitems"}, tc})
			if t, _, err := cparse(tc); err == nil && t.major == 4 && len(t.kids) > 0 {
				small = append(small, c02Seed{[]string{fmt.Sprintf("txbody:%d", bl.t), "wf", "anyv"}, t.kids[0].bytes()})
			}
			for j, o := range tx.Outputs() {
				if j >= 2 {
					break
				}
				if oc := o.Cbor(); len(oc) > 0 {
					small = append(small, c02Seed{[]string{"txout", "wf", "value"}, oc})
				}
				if ab, err := o.Address().Bytes(); err == nil {
					small = append(small, c02Seed{[]string{"addr"}, ab})
				}
			}
		}
	}
	if b := c02LoadHex(filepath.Join(c02RepoDir(), "ledger", "dijkstra", "testdata", "musashi_dijkstra_block.hex")); b != nil {
		big = append(big, c02Seed{[]string{fmt.Sprintf("block:%d", ledger.BlockTypeDijkstra), fmt.Sprintf("blockoff:%d", ledger.BlockTypeDijkstra), "wf"}, b})
	}
	// sum-type samples and protocol messages
	for _, st := range sumTypes {
		for _, v := range st.variants {
			small = append(small, c02Seed{[]string{"sum:" + st.name, "idlist", "wf", "value", "generr", "txerr"}, func() []byte { root, _ := st.build(v); return root.bytes() }()})
		}
	}
	for _, p := range c04Protos {
		for _, g := range p.gens {
			m, err := g(r)
			if err != nil || m == nil {
				continue
			}
			if e, ok := m.(*c04Expect); ok {
				m = e.Message
			}
			if b, err := cbor.Encode(m); err == nil {
				small = append(small, c02Seed{[]string{"msg:" + p.name, "wf", "lazy", "hdr", "ainfo"}, b})
			}
		}
	}
	return
}

// structure-aware mutation: parse, change the tree, re-encode
func c02MutateTree(r *Rand, b []byte) []byte {
	t, rest, err := cparse(b)
	if err != nil {
		return mutateBytes(r, b)
	}
	n := t.count()
	k := t.nth(r.Intn(n))
	switch r.Intn(7) {
	case 0: // header form
		t.reform(r, 1, 3, true)
	case 1: // type confusion: another kind of node in place of this one
		*k = *randNode(r, 2)
	case 2: // tag substitution / insertion
		inner := k.clone()
		*k = *cTag(uint64(Pick(r, 0, 1, 2, 3, 4, 24, 30, 258, 259, 121, 102, 1280, 55799, 1<<32)), inner)
	case 3: // drop or duplicate a child
		if len(k.kids) > 0 && k.major != 6 {
			i := r.Intn(len(k.kids))
			if r.Bool() {
				k.kids = append(k.kids[:i], k.kids[i+1:]...)
			} else {
				k.kids = append(k.kids, k.kids[i].clone())
			}
		}
	case 4: // integer to an edge value
		if k.major <= 1 {
			k.n = r.EdgeU64()
			k.w = Pick(r, cwidths(k.n)...)
		}
	case 5: // wrap in nesting
		inner := t.clone()
		d := Pick(r, 1, 5, 60, 250, 256, 257, 300)
		for i := 0; i < d; i++ {
			inner = cA(inner)
		}
		t = inner
	case 6: // string payload changed
		if k.major == 2 || k.major == 3 {
			k.b = r.Bytes(r.Intn(70))
			k.w = minW(uint64(len(k.b)))
		}
	}
	return append(t.bytes(), rest...)
}

// length-field inflation directly on the bytes: rewrite a head so that it claims far more than there is
func c02Inflate(r *Rand, b []byte) []byte {
	b = append([]byte(nil), b...)
	if len(b) == 0 {
		return b
	}
	i := r.Intn(len(b))
	major := b[i] & 0xe0
	huge := Pick(r, []byte{0x1a, 0x7f, 0xff, 0xff, 0xff}, []byte{0x1b, 0x7f, 0xff, 0xff, 0xff, 0xff, 0xff, 0xff, 0xff},
		[]byte{0x1b, 0xff, 0xff, 0xff, 0xff, 0xff, 0xff, 0xff, 0xff}, []byte{0x1a, 0x00, 0x98, 0x96, 0x81}, []byte{0x1a, 0x00, 0x98, 0x96, 0x80},
		[]byte{0x19, 0xff, 0xff}, []byte{0x1a, 0x00, 0x02, 0x00, 0x01}, []byte{0x1f})
	if r.Chance(1, 3) {
		major = Pick(r, byte(0x40), 0x60, 0x80, 0xa0)
	}
	h := append([]byte{major | huge[0]}, huge[1:]...)
	return append(b[:i:i], append(h, b[i+1:]...)...)
}

func c02Deep(r *Rand) []byte {
	d := Pick(r, 255, 256, 257, 1000, 5000, 20000)
	open := Pick(r, []byte{0x81}, []byte{0x9f}, []byte{0xa1, 0x00}, []byte{0xbf, 0x00}, []byte{0xc1}, []byte{0xd8, 0x18}, []byte{0xd9, 0x01, 0x02}, []byte{0x82, 0x00}, []byte{0x5f}, []byte{0x7f})
	out := []byte{}
	for i := 0; i < d; i++ {
		out = append(out, open...)
	}
	switch r.Intn(3) {
	case 0:
		out = append(out, 0x00)
	case 1:
		out = append(out, 0x00)
		if open[0] == 0x9f || open[0] == 0xbf {
			for i := 0; i < d; i++ {
				out = append(out, 0xff)
			}
		}
	}
	return out
}

func genC02(r *Rand, n int, tier string, emit func(string)) {
	big, small := c02Seeds(r)
	cnt := 0
	out := func(entry string, b []byte) {
		if len(b) > 200000 {
			return
		}
		emit(entry + " " + hexs(b))
		cnt++
	}
	// every seed unmodified through its own entries
	for _, s := range big {
		for _, e := range s.entries {
			out(e, s.b)
		}
	}
	for _, s := range small {
		out(s.entries[0], s.b)
	}
	// nested sums (ledger failure reasons, query leaves): every list of the input cut short at
	// every length — the decoders index into the item lists they were handed
	for _, st := range sumTypes {
		if st.path == nil || len(st.variants) == 0 {
			continue
		}
		for _, v := range []sumVariant{st.variants[0], st.variants[r.Intn(len(st.variants))]} {
			root, _ := st.build(v)
			nn := root.count()
			for i := 0; i < nn; i++ {
				if k := root.nth(i); k.major != 4 {
					continue
				}
				ln := len(root.nth(i).kids)
				for j := 0; j < ln; j++ {
					c := root.clone()
					a := c.nth(i)
					a.kids = a.kids[:j]
					b := c.bytes()
					out("sum:"+st.name, b)
					if strings.Contains(st.name, "fail") {
						out("txerr", b)
					}
				}
			}
		}
	}
	nBig := n / 40
	for i := 0; i < nBig && len(big) > 0; i++ {
		s := big[r.Intn(len(big))]
		var b []byte
		switch r.Intn(3) {
		case 0:
			b = s.b[:r.Intn(len(s.b))]
		case 1:
			b = c02Inflate(r, s.b)
		default:
			b = mutateBytes(r, s.b)
		}
		out(s.entries[r.Intn(len(s.entries))], b)
	}
	for i := 0; i < 40+n/50; i++ {
		b := r.Bytes(r.Intn(12))
		edge := func() int64 {
			return Pick(r, int64(0), 1, int64(len(b)), int64(len(b))+1, int64(len(b))-1, -1, 1<<63-1, 1<<63-2, -1<<63, 1<<62, int64(r.Intn(14)), int64(r.Intn(14)))
		}
		emit(fmt.Sprintf("rawb %s %d %d", hexs(b), edge(), edge()))
		cnt++
	}
	typedAll := []string{"value", "lazy", "anyv", "diag", "diagtx", "diagblk", "sdiag", "sitems", "skipn", "idlist", "txout", "addr", "generr", "txerr",
		"block:1", "block:5", "block:7", "blockoff:6", "header:2", "header:7", "tx:7", "tx:1", "txbody:5"}
	for cnt < n {
		switch r.Intn(12) {
		case 0: // uniform bytes
			b := r.Bytes(r.Intn(40))
			out(Pick(r, c02Generic...), b)
			out(Pick(r, typedAll...), b)
		case 1:
			b := c02Deep(r)
			out(Pick(r, "wf", "value", "lazy", "anyv", "diag", "sdiag", "sitems", "skipn", "idlist", "diagtx", "diagblk", "txout", "tx:7", "block:7", "msg:handshake", "sum:nativescript", "generr"), b)
		case 2: // random well-formed item, every generic entry
			t := randNode(r, 3)
			t.reform(r, 1, 3, true)
			b := t.bytes()
			if r.Chance(1, 3) {
				b = mutateBytes(r, b)
			}
			out(Pick(r, c02Generic...), b)
		default:
			s := small[r.Intn(len(small))]
			var b []byte
			switch r.Intn(5) {
			case 0:
				b = s.b[:r.Intn(len(s.b)+1)]
			case 1:
				b = c02Inflate(r, s.b)
			case 2, 3:
				b = c02MutateTree(r, s.b)
			default:
				b = mutateBytes(r, s.b)
			}
			e := s.entries[r.Intn(len(s.entries))]
			if r.Chance(1, 6) {
				e = Pick(r, typedAll...)
			}
			out(e, b)
		}
	}
}
