package main

// C33 — reward withdrawals are gated on DRep delegation only at PV10/PV11.
//
//	op:  wd <era> <pv> <valid> <state> <k> (<kind><reg><deleg>:<amount>)*
//	     era   = conway | dijkstra | conway-dpp (Conway transaction and rule list with
//	             Dijkstra parameter type)
//	     pv    = protocol major version in the parameters
//	     valid = IsValid flag of the transaction
//	     state = cap (ledger state implements DRepDelegationState) | nocap
//	     item  = kind k|s (key-hash / script-hash reward account), reg 1|0 (registered),
//	             deleg d|n|e (delegated / no delegation / lookup returns an error)
//	out: ok | unreg | unavail | notdeleg | lookuperr   (which withdrawal error, if any,
//	     the era's rule list returns; the rule list is run entry by entry)
//
// The transaction is built as CBOR and decoded by the era decoder. Go's map
// iteration order is random, so the generator never mixes `n` and `e` among the
// non-zero withdrawals of one op (the only case where the order would show).

import (
	"errors"
	"fmt"
	"strconv"
	"strings"

	"github.com/blinklabs-io/gouroboros/ledger/common"
	"github.com/blinklabs-io/gouroboros/ledger/conway"
	"github.com/blinklabs-io/gouroboros/ledger/dijkstra"
	"github.com/blinklabs-io/gouroboros/ledger/shelley"
	mockledger "github.com/blinklabs-io/ouroboros-mock/ledger"
)

func init() {
	register(&Prop{ID: "C33", Gen: genC33, Run: runC33})
}

func genC33(r *Rand, n int, tier string, emit func(string)) {
	eras := []string{"conway", "dijkstra", "conway-dpp"}
	cnt := 0
	// exhaustive decision table first: pv 0..20 x era x valid x state x single withdrawal shape
	for _, era := range eras {
		for pv := 0; pv <= 20; pv++ {
			for _, valid := range []string{"1", "0"} {
				for _, st := range []string{"cap", "nocap"} {
					for _, item := range []string{"k1n:5", "k1d:5", "k1n:0", "k1e:5", "k0n:5", "s1n:5"} {
						emit(fmt.Sprintf("wd %s %d %s %s 1 %s", era, pv, valid, st, item))
						cnt++
					}
					emit(fmt.Sprintf("wd %s %d %s %s 0", era, pv, valid, st))
					cnt++
				}
			}
		}
	}
	for ; cnt < n; cnt++ {
		era := eras[r.Intn(3)]
		var pv uint64
		switch r.Intn(6) {
		case 0:
			pv = uint64(r.Intn(21))
		case 1:
			pv = r.EdgeU64()
		default:
			pv = uint64(8 + r.Intn(6))
		}
		valid := "1"
		if r.Chance(1, 6) {
			valid = "0"
		}
		st := "cap"
		if r.Chance(1, 4) {
			st = "nocap"
		}
		k := Pick(r, 0, 1, 1, 2, 3, 5)
		// never mix 'n' and 'e' among non-zero withdrawals
		bad := Pick(r, "n", "n", "e", "d")
		items := []string{}
		for j := 0; j < k; j++ {
			kind := "k"
			if r.Chance(1, 8) {
				kind = "s"
			}
			reg := "1"
			if r.Chance(1, 12) {
				reg = "0"
			}
			dl := "d"
			if r.Chance(1, 2) {
				dl = bad
			}
			var amt uint64
			switch r.Intn(4) {
			case 0:
				amt = 0
			case 1:
				amt = r.EdgeU64()
			default:
				amt = uint64(1 + r.Intn(1000000))
			}
			if amt == 0 {
				dl = Pick(r, "d", "n", "e") // irrelevant for zero amounts
			}
			items = append(items, fmt.Sprintf("%s%s%s:%d", kind, reg, dl, amt))
		}
		emit(strings.TrimSpace(fmt.Sprintf("wd %s %d %s %s %d %s", era, pv, valid, st, k, strings.Join(items, " "))))
	}
}

func c33Hash(kind byte, j int) []byte {
	h := make([]byte, 28)
	h[0] = kind
	h[27] = byte(j + 1)
	return h
}

func runC33(op string) string {
	f := strings.Fields(op)
	if len(f) < 6 || f[0] != "wd" {
		return "bad-op"
	}
	era := f[1]
	pv, e1 := strconv.ParseUint(f[2], 10, 64)
	k, e2 := strconv.Atoi(f[5])
	if e1 != nil || e2 != nil || len(f) != 6+k || (f[3] != "0" && f[3] != "1") || (f[4] != "cap" && f[4] != "nocap") {
		return "bad-op"
	}
	valid := f[3] == "1"
	regs := map[common.Blake2b224]bool{}
	deleg := map[common.Blake2b224]byte{}
	wkv := [][]byte{}
	for j := 0; j < k; j++ {
		p := strings.Split(f[6+j], ":")
		if len(p) != 2 || len(p[0]) != 3 {
			return "bad-op"
		}
		amt, e := strconv.ParseUint(p[1], 10, 64)
		if e != nil {
			return "bad-op"
		}
		h := c33Hash(p[0][0], j)
		addr := append([]byte{0xe1}, h...)
		if p[0][0] == 's' {
			addr[0] = 0xf1
		} else if p[0][0] != 'k' {
			return "bad-op"
		}
		hh := common.NewBlake2b224(h)
		regs[hh] = p[0][1] == '1'
		deleg[hh] = p[0][2]
		wkv = append(wkv, cbBytes(addr), cbUint(amt))
	}
	out := cbArray(cbBytes(g1Addr(7)), cbUint(2000000))
	kv := [][]byte{cbUint(0), cbArray(g1TxIn(1, 0)), cbUint(1), cbArray(out), cbUint(2), cbUint(170000)}
	if k > 0 {
		kv = append(kv, cbUint(5), cbMap(wkv...))
	}
	txEra := era
	if era == "conway-dpp" {
		txEra = "conway"
	}
	if txEra != "conway" && txEra != "dijkstra" {
		return "bad-op"
	}
	var tx common.Transaction
	if txEra == "dijkstra" && !valid {
		// the Dijkstra decoder refuses is_valid = false: build the struct directly, so that a
		// phase-2-invalid Dijkstra transaction is an input of the rule list as well
		t := &dijkstra.DijkstraTransaction{TxIsValid: false}
		t.Body.TxWithdrawals = map[*common.Address]uint64{}
		for j := 0; j < k; j++ {
			p := strings.Split(f[6+j], ":")
			amt, _ := strconv.ParseUint(p[1], 10, 64)
			ab := append([]byte{0xe1}, c33Hash(p[0][0], j)...)
			if p[0][0] == 's' {
				ab[0] = 0xf1
			}
			a, err := common.NewAddressFromBytes(ab)
			if err != nil {
				return "bad-op"
			}
			t.Body.TxWithdrawals[&a] = amt
		}
		tx = t
	} else {
		raw := g1Envelope(txEra, cbMap(kv...), cbMap(), valid, nil, 4, 0)
		var derr error
		tx, derr = g1DecodeTx(txEra, raw)
		if derr != nil {
			return "decode-err"
		}
	}
	if len(tx.Withdrawals()) != k || tx.IsValid() != valid {
		return "build-mismatch"
	}
	var lookupErr = errors.New("c33 lookup failure")
	full := mockledger.NewLedgerStateBuilder().
		WithStakeCredentials(regs).
		WithDRepDelegation(func(c common.Credential) (*common.Drep, error) {
			switch deleg[c.Credential] {
			case 'd':
				return &common.Drep{}, nil
			case 'e':
				return nil, lookupErr
			}
			return nil, nil
		}).Build()
	var ls common.LedgerState = full
	if f[4] == "nocap" {
		ls = struct{ common.LedgerState }{LedgerState: full}
	}
	pp := g1Pparams(txEra, g1PP{MinFeeA: 44, MinFeeB: 155381, MaxTxSize: 16384, Major: uint(pv)})
	if era == "conway-dpp" {
		pp = g1Pparams("dijkstra", g1PP{MinFeeA: 44, MinFeeB: 155381, MaxTxSize: 16384, Major: uint(pv)})
	}
	verdict := func() string {
		res := "ok"
		for _, rule := range g1Rules(txEra) {
			e := safeRule(rule, tx, 0, ls, pp)
			if e == nil {
				continue
			}
			var e1 shelley.WithdrawalFromUnregisteredRewardAccountError
			var e2 conway.DRepDelegationStateUnavailableError
			var e3 conway.WithdrawalNotDelegatedToDRepError
			switch {
			case errors.As(e, &e1):
				res = "unreg"
			case errors.As(e, &e2):
				res = "unavail"
			case errors.As(e, &e3):
				res = "notdeleg"
			case errors.Is(e, lookupErr):
				res = "lookuperr"
			}
		}
		return res
	}
	// validation is a function of its arguments: a second run gives the same verdict
	v1 := verdict()
	if v2 := verdict(); v2 != v1 {
		return "IMPURE " + v1 + " then " + v2
	}
	return v1
}
