package main

// C17 — connection roles and diffusion modes gate what is accepted.
//
// op:  conn <server 0|1> <mode ntn|ntc|dmq> <fullDuplex> <sendKeepAlives> <peerSharing>
//           <version> <peerDM 0|1> <probeId> <probeResp 0|1>
//
// A real ouroboros.Connection is set up over a net.Pipe against a scripted
// peer that performs the raw handshake (proposing / accepting exactly
// <version>, advertising diffusion mode <peerDM>: 1 = InitiatorOnly,
// 0 = InitiatorAndResponder) and then sends one segment with protocol id
// <probeId>, the response bit set iff <probeResp>=1, and a payload that no
// mini-protocol accepts ([255]). The first error the connection reports tells
// where the segment went:
//   muxer:not-responder | muxer:not-initiator | muxer:unknown-protocol(<id>) |
//   proto:<name> (delivered to the registered protocol of that name) | none

import (
	"fmt"
	"io"
	"net"
	"strconv"
	"strings"
	"time"

	ouroboros "github.com/blinklabs-io/gouroboros"
	"github.com/blinklabs-io/gouroboros/cbor"
	"github.com/blinklabs-io/gouroboros/protocol/handshake"
)

func init() {
	register(&Prop{ID: "C17", Gen: genC17, Run: runC17, Timeout: 150 * time.Second})
}

var g2ProbeIds = []uint16{0, 1, 2, 3, 4, 5, 6, 7, 8, 9, 10, 11, 14, 15, 18, 19, 20, 21, 0x7fff}

func genC17(r *Rand, n int, tier string, emit func(string)) {
	modes := []string{"ntn", "ntc", "dmq"}
	count := 0
	// systematic sweep first (all option combinations x versions x both directions), probe ids rotating
	for _, server := range []bool{false, true} {
		for _, mode := range modes {
			for _, v := range g2TableVersions(mode) {
				for fd := 0; fd < 2; fd++ {
					for pdm := 0; pdm < 2; pdm++ {
						for resp := 0; resp < 2; resp++ {
							ids := g2ProbeIds
							if tier != "thorough" {
								// quick: two probe ids per configuration, rotating through the list
								k := count % len(g2ProbeIds)
								ids = []uint16{g2ProbeIds[k], g2ProbeIds[(k+7)%len(g2ProbeIds)]}
							}
							for _, id := range ids {
								ka := (count/3)%2 == 0
								ps := (count/5)%2 == 0
								emit(fmt.Sprintf("conn %s %s %d %s %s %d %d %d %d", b01(server), mode, fd, b01(ka), b01(ps), v, pdm, id, resp))
								count++
							}
						}
					}
				}
			}
		}
	}
	for i := 0; i < n; i++ {
		mode := modes[r.Intn(3)]
		vs := g2TableVersions(mode)
		id := g2ProbeIds[r.Intn(len(g2ProbeIds))]
		if r.Chance(1, 10) {
			id = uint16(r.Intn(0x8000))
		}
		emit(fmt.Sprintf("conn %s %s %s %s %s %d %s %d %s", b01(r.Bool()), mode, b01(r.Bool()), b01(r.Bool()), b01(r.Bool()), vs[r.Intn(len(vs))], b01(r.Bool()), id, b01(r.Bool())))
	}
}

func g2ClassifyConnErr(err error) string {
	msg := err.Error()
	switch {
	case strings.Contains(msg, "received message from initiator when not configured as a responder"):
		return "muxer:not-responder"
	case strings.Contains(msg, "received message from responder when not configured as an initiator"):
		return "muxer:not-initiator"
	case strings.Contains(msg, "received message for unknown protocol ID"):
		i := strings.LastIndex(msg, " ")
		return "muxer:unknown-protocol(" + msg[i+1:] + ")"
	case strings.HasPrefix(msg, "protocol error: "):
		rest := strings.TrimPrefix(msg, "protocol error: ")
		// longest protocol name that prefixes the message
		best := ""
		for _, p := range g2ProtoIds() {
			name := strings.TrimSuffix(strings.TrimSuffix(p[0].(string), "/ntn"), "/ntc")
			if strings.HasPrefix(rest, name+":") && len(name) > len(best) {
				best = name
			}
		}
		if best != "" {
			return "proto:" + best
		}
		return "proto:?(" + rest + ")"
	}
	return "other(" + msg + ")"
}

func runC17(op string) string {
	f := strings.Fields(op)
	if len(f) != 10 || f[0] != "conn" {
		return "bad-op"
	}
	server := f[1] == "1"
	mode := f[2]
	fullDuplex, ka, ps := f[3] == "1", f[4] == "1", f[5] == "1"
	ver, e1 := strconv.ParseUint(f[6], 10, 16)
	peerDM := f[7] == "1"
	probeId, e2 := strconv.ParseUint(f[8], 10, 15)
	probeResp := f[9] == "1"
	if e1 != nil || e2 != nil || (mode != "ntn" && mode != "ntc" && mode != "dmq") {
		return "bad-op"
	}
	const magic = 764824073
	// the peer's version data for <version>, as the real generator builds it
	peerMap, _, _ := g2Table(mode, magic, peerDM, ps, false)
	entry, ok := peerMap[uint16(ver)]
	if !ok {
		return "bad-op"
	}
	vdata, err := cbor.Encode(&entry)
	if err != nil {
		return "bad-op"
	}
	a, b := net.Pipe()
	defer a.Close()
	defer b.Close()
	field := uint16(probeId)
	if probeResp {
		field |= 0x8000
	}
	probe := []byte{0x81, 0x18, 0xff}
	peerDone := make(chan string, 1)
	go func() {
		// scripted peer
		if server {
			// we are the initiator: propose exactly {version: data}
			payload := append([]byte{0x82, 0x00, 0xa1}, g2CborHead(0, ver, 0)...)
			payload = append(payload, vdata...)
			if err := g2WriteSegment(b, 0x0000, payload); err != nil {
				peerDone <- "peer-write-failed"
				return
			}
			// A duplex local side starts its client protocols right after queueing AcceptVersion, so
			// one of their first segments may overtake it on the wire: skip to the handshake reply.
			for {
				id, resp, err := g2ReadSegment(b)
				if err != nil {
					peerDone <- "peer-handshake-failed"
					return
				}
				if id != 0x8000 {
					continue
				}
				if len(resp) < 2 || resp[1] != handshake.MessageTypeAcceptVersion {
					peerDone <- "peer-handshake-failed"
					return
				}
				break
			}
		} else {
			// we are the responder: accept <version>
			if _, _, err := g2ReadSegment(b); err != nil {
				peerDone <- "peer-read-failed"
				return
			}
			payload := append([]byte{0x83, 0x01}, g2CborHead(0, ver, 0)...)
			payload = append(payload, vdata...)
			if err := g2WriteSegment(b, 0x8000, payload); err != nil {
				peerDone <- "peer-write-failed"
				return
			}
		}
		// the probe may have to wait until the local side starts its muxer; swallow
		// whatever the local protocols send meanwhile
		go func() { _, _ = io.Copy(io.Discard, b) }()
		_ = g2WriteSegment(b, field, probe)
		peerDone <- "ok"
	}()
	conn, err := ouroboros.NewConnection(
		ouroboros.WithConnection(a),
		ouroboros.WithNetworkMagic(magic),
		ouroboros.WithServer(server),
		ouroboros.WithNodeToNode(mode == "ntn"),
		ouroboros.WithDMQ(mode == "dmq"),
		ouroboros.WithFullDuplex(fullDuplex),
		ouroboros.WithKeepAlive(ka),
		ouroboros.WithPeerSharing(ps),
	)
	if err != nil {
		return "setup-failed(" + g2ClassifyHandshakeErr(err) + ")"
	}
	defer func() { go func() { _ = conn.Close() }() }()
	select {
	case err, ok := <-conn.ErrorChan():
		if !ok || err == nil {
			return "closed-without-error"
		}
		return g2ClassifyConnErr(err)
	case <-time.After(g2Deadline()):
		g2NoteExpired()
		select {
		case s := <-peerDone:
			return "none(" + s + ")"
		default:
			return "none(peer-blocked)"
		}
	}
}
