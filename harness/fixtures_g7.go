package main

// Real block fixtures of every era, read by path from the repository under
// verification (internal/ cannot be imported).

import (
	"encoding/hex"
	"errors"
	"os"
	"path/filepath"
	"strings"
	"sync"

	"github.com/blinklabs-io/gouroboros/cbor"
	"github.com/blinklabs-io/gouroboros/ledger"
)

func g7RepoDir() string {
	if d := os.Getenv("VERIF_REPO"); d != "" {
		return d
	}
	return "/repo"
}

type g7Fixture struct {
	name      string
	path      string
	blockType uint // the type the fixture's source says it is
	once      sync.Once
	data      []byte
	err       error
}

var g7Fixtures = []*g7Fixture{
	{name: "byronebb", path: "protocol/chainsync/testdata/byron_ebb_testnet_8f8602837f7c6f8b8867dd1cbc1842cf51a27eaed2c70ef48325d00f8efb320f.hex", blockType: ledger.BlockTypeByronEbb},
	{name: "byron", path: "internal/testdata/byron_block.hex", blockType: ledger.BlockTypeByronMain},
	{name: "byrontestnet", path: "protocol/chainsync/testdata/byron_main_block_testnet_f38aa5e8cf0b47d1ffa8b2385aa2d43882282db2ffd5ac0e3dadec1a6f2ecf08.hex", blockType: ledger.BlockTypeByronMain},
	{name: "shelley", path: "internal/testdata/shelley_block.hex", blockType: ledger.BlockTypeShelley},
	{name: "shelleytestnet", path: "protocol/chainsync/testdata/shelley_block_testnet_02b1c561715da9e540411123a6135ee319b02f60b9a11a603d3305556c04329f.hex", blockType: ledger.BlockTypeShelley},
	{name: "allegra", path: "internal/testdata/allegra_block.hex", blockType: ledger.BlockTypeAllegra},
	{name: "mary", path: "internal/testdata/mary_block.hex", blockType: ledger.BlockTypeMary},
	{name: "alonzo", path: "internal/testdata/alonzo_block.hex", blockType: ledger.BlockTypeAlonzo},
	{name: "babbage", path: "internal/testdata/babbage_block.hex", blockType: ledger.BlockTypeBabbage},
	{name: "conway", path: "internal/testdata/conway_block.hex", blockType: ledger.BlockTypeConway},
	{name: "dijkstra", path: "ledger/dijkstra/testdata/musashi_dijkstra_block.hex", blockType: ledger.BlockTypeDijkstra},
}

func g7FixtureByName(n string) *g7Fixture {
	for _, f := range g7Fixtures {
		if f.name == n {
			return f
		}
	}
	return nil
}

func (f *g7Fixture) bytes() ([]byte, error) {
	f.once.Do(func() {
		raw, err := os.ReadFile(filepath.Join(g7RepoDir(), f.path))
		if err != nil {
			f.err = err
			return
		}
		f.data, f.err = hex.DecodeString(strings.TrimSpace(string(raw)))
	})
	return f.data, f.err
}

// g7ArrayElems returns the raw elements of a CBOR array and the byte offset of
// each element inside `arr`.
func g7ArrayElems(arr []byte) ([]cbor.RawMessage, []int, error) {
	var elems []cbor.RawMessage
	if _, err := cbor.Decode(arr, &elems); err != nil {
		return nil, nil, err
	}
	total := 0
	for _, e := range elems {
		total += len(e)
	}
	head := len(arr) - total
	if len(arr) > 0 && arr[0] == 0x9f {
		head = 1
	}
	if head < 1 || head > 9 {
		return nil, nil, errors.New("cannot locate array elements")
	}
	offs := make([]int, len(elems))
	o := head
	for i, e := range elems {
		offs[i] = o
		o += len(e)
	}
	return elems, offs, nil
}

// g7HeaderInfo locates the header of a block, the number of fields of the
// header body and (Shelley and later) the byte offset of the protocol major
// inside the block together with its value. majorOff = -1 when the header has
// no Shelley-style protocol version (Byron) or it is not a one-byte uint.
func g7HeaderInfo(block []byte) (hdr []byte, hdrOff int, bodyLen int, majorOff int, major uint64, err error) {
	majorOff = -1
	top, topOffs, err := g7ArrayElems(block)
	if err != nil || len(top) < 1 {
		return nil, 0, 0, -1, 0, errors.New("block is not an array")
	}
	hdr = top[0]
	hdrOff = topOffs[0]
	h, hOffs, e2 := g7ArrayElems(hdr)
	if e2 != nil || len(h) != 2 {
		return hdr, hdrOff, 0, -1, 0, nil
	}
	body, bOffs, e3 := g7ArrayElems(h[0])
	if e3 != nil {
		return hdr, hdrOff, 0, -1, 0, nil
	}
	bodyLen = len(body)
	var pos int
	switch {
	case bodyLen == 15:
		pos = hdrOff + hOffs[0] + bOffs[13]
	case bodyLen >= 10:
		pv, pvOffs, e4 := g7ArrayElems(body[9])
		if e4 != nil || len(pv) < 1 {
			return hdr, hdrOff, bodyLen, -1, 0, nil
		}
		pos = hdrOff + hOffs[0] + bOffs[9] + pvOffs[0]
	default:
		return hdr, hdrOff, bodyLen, -1, 0, nil
	}
	if block[pos] >= 24 {
		return hdr, hdrOff, bodyLen, -1, 0, nil
	}
	return hdr, hdrOff, bodyLen, pos, uint64(block[pos]), nil
}

// g7Patched returns a copy of the fixture with the header's protocol major
// replaced (both values must be one-byte CBOR uints, 0..23).
func g7Patched(block []byte, major uint64) ([]byte, error) {
	_, _, _, off, _, err := g7HeaderInfo(block)
	if err != nil {
		return nil, err
	}
	if off < 0 || major >= 24 {
		return nil, errors.New("protocol major cannot be patched in place")
	}
	out := append([]byte{}, block...)
	out[off] = byte(major)
	return out, nil
}
