package main

// Regenerated constants for the mini-protocol properties C21..C25.
func init() {
	registerGen(func() {
		emitConsts("TxSubLimits", [][3]string{
			{"protocol/txsubmission", "MaxRequestCount", "maxRequestCount"},
			{"protocol/txsubmission", "MaxAckCount", "maxAckCount"},
		})
	})
}
