package main

import (
	"go/ast"
	"go/constant"
)

// Regenerated constants for the mini-protocol properties C21..C25.
func init() {
	registerGen(genChainSyncLimits)
	registerGen(func() {
		emitConsts("TxSubLimits", [][3]string{
			{"protocol/txsubmission", "MaxRequestCount", "maxRequestCount"},
			{"protocol/txsubmission", "MaxAckCount", "maxAckCount"},
		})
	})
}

// genChainSyncLimits: the numbers the C21 theorems depend on, read from the source:
//   - the capacity expression of `p.sendQueueChan = make(chan outboundMessage, X)` in
//     protocol.Protocol.Start (a literal, or a package constant that is then evaluated),
//   - chainsync.MaxPipelineLimit / DefaultPipelineLimit / DefaultPipelineDrainTimeout.
func genChainSyncLimits() {
	p := loadPkg("protocol")
	fn := findFunc(p, "Protocol", "Start")
	if fn == nil {
		fatal("protocol.(*Protocol).Start not found")
	}
	capacity := ""
	ast.Inspect(fn, func(n ast.Node) bool {
		as, ok := n.(*ast.AssignStmt)
		if !ok || len(as.Lhs) != 1 || len(as.Rhs) != 1 {
			return true
		}
		sel, ok := as.Lhs[0].(*ast.SelectorExpr)
		if !ok || sel.Sel.Name != "sendQueueChan" {
			return true
		}
		call, ok := as.Rhs[0].(*ast.CallExpr)
		if !ok || len(call.Args) != 2 {
			fatal("sendQueueChan is not made with an explicit capacity")
		}
		if id, ok := call.Fun.(*ast.Ident); !ok || id.Name != "make" {
			fatal("sendQueueChan is not created by make")
		}
		e := &constEnv{p: p, memo: map[string]constant.Value{}}
		capacity = e.eval(call.Args[1], 0).ExactString()
		return false
	})
	if capacity == "" {
		fatal("assignment to sendQueueChan not found in Protocol.Start")
	}
	l := newLean("ChainSyncLimits")
	l.pf("namespace GV.Gen.ChainSyncLimits\n")
	l.pf("def sendQueueCap : Nat := %s -- capacity of p.sendQueueChan in protocol.(*Protocol).Start\n", capacity)
	l.pf("def maxPipelineLimit : Nat := %s -- protocol/chainsync.MaxPipelineLimit\n", constOf("protocol/chainsync", "MaxPipelineLimit"))
	l.pf("def defaultPipelineLimit : Nat := %s -- protocol/chainsync.DefaultPipelineLimit\n", constOf("protocol/chainsync", "DefaultPipelineLimit"))
	l.pf("def defaultPipelineDrainTimeoutNs : Nat := %s -- protocol/chainsync.DefaultPipelineDrainTimeout\n", constOf("protocol/chainsync", "DefaultPipelineDrainTimeout"))
	l.pf("end GV.Gen.ChainSyncLimits\n")
}
