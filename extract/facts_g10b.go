package main

// C34 facts (group g10b): for every post-Byron era with the "segwit" block
// layout, the literal 4th argument of the common.ValidateBlockBodyHash call
// inside New<Era>BlockFromCbor (= 1 + number of top-level segments the body
// hash covers) and the number of CBOR array elements of the era's <Era>Block
// struct (= what cbor.Decode demands of the top-level array). Written to
// lean/GV/Gen/SegCounts.lean; GV.Props.C34.all_segments_covered is proved about
// these generated tables, so editing a literal (Conway 5 -> 4) or adding a
// block field without extending the hash breaks a proof obligation.
//
// Also extracted: the arity checks of the Dijkstra block ([header, body]) and
// the minimum component count the Byron transaction decoder demands.
//
// Anything not in the expected shape is a hard error.

import (
	"go/ast"
	"go/token"
	"strconv"
	"strings"
)

var segEras = []string{"shelley", "allegra", "mary", "alonzo", "babbage", "conway"}

func init() { registerGen(genSegCounts) }

func title(s string) string { return strings.ToUpper(s[:1]) + s[1:] }

// segCountOf returns the integer literal passed as minRawLength.
func segCountOf(era string) int {
	p := loadPkg("ledger/" + era)
	fn := "New" + title(era) + "BlockFromCbor"
	fd := findFunc(p, "", fn)
	if fd == nil || fd.Body == nil {
		fatal("ledger/%s: %s not found", era, fn)
	}
	found := []int{}
	guarded := false
	ast.Inspect(fd.Body, func(n ast.Node) bool {
		// the call must sit under `if !cfg.SkipBodyHashValidation { ... }`
		if is, ok := n.(*ast.IfStmt); ok {
			if ue, ok := is.Cond.(*ast.UnaryExpr); ok && ue.Op == token.NOT {
				if se, ok := ue.X.(*ast.SelectorExpr); ok && se.Sel.Name == "SkipBodyHashValidation" {
					ast.Inspect(is.Body, func(m ast.Node) bool {
						if c, ok := m.(*ast.CallExpr); ok && isValidateCall(c) {
							guarded = true
						}
						return true
					})
				}
			}
		}
		c, ok := n.(*ast.CallExpr)
		if !ok || !isValidateCall(c) {
			return true
		}
		if len(c.Args) != 4 {
			fatal("ledger/%s: %s: ValidateBlockBodyHash call has %d arguments, expected 4", era, fn, len(c.Args))
		}
		lit, ok := c.Args[3].(*ast.BasicLit)
		if !ok || lit.Kind != token.INT {
			fatal("ledger/%s: %s: 4th argument of ValidateBlockBodyHash is not an integer literal (%s)", era, fn, fset.Position(c.Args[3].Pos()))
		}
		v, err := strconv.Atoi(lit.Value)
		if err != nil {
			fatal("ledger/%s: bad literal %s", era, lit.Value)
		}
		// first argument must be the function's data parameter, so that the
		// hash ranges over the very bytes that were decoded
		if id, ok := c.Args[0].(*ast.Ident); !ok || id.Name != fd.Type.Params.List[0].Names[0].Name {
			fatal("ledger/%s: %s: ValidateBlockBodyHash is not called on the decoded data", era, fn)
		}
		found = append(found, v)
		return true
	})
	if len(found) != 1 {
		fatal("ledger/%s: %s: expected exactly one common.ValidateBlockBodyHash call, found %d", era, fn, len(found))
	}
	// which config field guards the call is extracted separately (facts_g10b_gate.go, GV.Gen.BodyGate)
	// and is a proof obligation (GV.Props.C34.gate_is_body_flag), not an extractor error
	_ = guarded
	return found[0]
}

func isValidateCall(c *ast.CallExpr) bool {
	se, ok := c.Fun.(*ast.SelectorExpr)
	if !ok || se.Sel.Name != "ValidateBlockBodyHash" {
		return false
	}
	id, ok := se.X.(*ast.Ident)
	return ok && id.Name == "common"
}

func findStruct(p *pkgInfo, name string) *ast.StructType {
	for _, f := range p.files {
		for _, d := range f.Decls {
			gd, ok := d.(*ast.GenDecl)
			if !ok || gd.Tok != token.TYPE {
				continue
			}
			for _, s := range gd.Specs {
				ts := s.(*ast.TypeSpec)
				if ts.Name.Name == name {
					st, ok := ts.Type.(*ast.StructType)
					if !ok {
						fatal("%s: type %s is not a struct", p.dir, name)
					}
					return st
				}
			}
		}
	}
	return nil
}

// arrayArity counts the fields of a `cbor.StructAsArray` struct that are
// elements of the encoded array: exported, not `cbor:"-"`, not the embedded
// marker types.
func arrayArity(pkg, name string) int {
	p := loadPkg(pkg)
	st := findStruct(p, name)
	if st == nil {
		fatal("%s: struct %s not found", pkg, name)
	}
	return structArity(pkg, name, st)
}

// decodeArity: the arity of the struct type that <name>.UnmarshalCBOR actually hands to
// cbor.Decode — a local `type t<Name> <Name>` (same layout) or a local struct literal type.
func decodeArity(pkg, name string) int {
	p := loadPkg(pkg)
	fd := findFunc(p, name, "UnmarshalCBOR")
	if fd == nil || fd.Body == nil {
		fatal("%s: %s.UnmarshalCBOR not found", pkg, name)
	}
	res := []int{}
	localName := ""
	ast.Inspect(fd.Body, func(n ast.Node) bool {
		ds, ok := n.(*ast.DeclStmt)
		if !ok {
			return true
		}
		gd, ok := ds.Decl.(*ast.GenDecl)
		if !ok || gd.Tok != token.TYPE {
			return true
		}
		for _, sp := range gd.Specs {
			ts := sp.(*ast.TypeSpec)
			switch t := ts.Type.(type) {
			case *ast.StructType:
				res = append(res, structArity(pkg, name+".UnmarshalCBOR/"+ts.Name.Name, t))
			case *ast.Ident:
				if t.Name != name {
					fatal("%s: %s.UnmarshalCBOR: local type %s is %s, expected %s", pkg, name, ts.Name.Name, t.Name, name)
				}
				res = append(res, arrayArity(pkg, name))
			default:
				fatal("%s: %s.UnmarshalCBOR: unsupported local type %s", pkg, name, ts.Name.Name)
			}
			localName = ts.Name.Name
		}
		return true
	})
	if len(res) != 1 {
		fatal("%s: %s.UnmarshalCBOR: expected exactly one local decode type, found %d", pkg, name, len(res))
	}
	// the local type must be what is decoded: `var tmp <local>` ... cbor.Decode(cborData, &tmp)
	used := false
	ast.Inspect(fd.Body, func(n ast.Node) bool {
		if vs, ok := n.(*ast.ValueSpec); ok {
			if id, ok := vs.Type.(*ast.Ident); ok && id.Name == localName {
				used = true
			}
		}
		return true
	})
	if !used {
		fatal("%s: %s.UnmarshalCBOR: local type %s is not the decode target", pkg, name, localName)
	}
	return res[0]
}

func structArity(pkg, name string, st *ast.StructType) int {
	asArray := false
	n := 0
	for _, f := range st.Fields.List {
		if len(f.Names) == 0 {
			// embedded
			se, ok := f.Type.(*ast.SelectorExpr)
			if !ok {
				fatal("%s.%s: unsupported embedded field at %s", pkg, name, fset.Position(f.Pos()))
			}
			id, _ := se.X.(*ast.Ident)
			if id == nil || id.Name != "cbor" {
				fatal("%s.%s: unsupported embedded field %s", pkg, name, se.Sel.Name)
			}
			switch se.Sel.Name {
			case "StructAsArray":
				asArray = true
			case "DecodeStoreCbor":
			default:
				fatal("%s.%s: unknown embedded cbor.%s", pkg, name, se.Sel.Name)
			}
			continue
		}
		if f.Tag != nil {
			tag, _ := strconv.Unquote(f.Tag.Value)
			if strings.Contains(tag, `cbor:"-"`) {
				continue
			}
			if strings.Contains(tag, "cbor:") {
				fatal("%s.%s: field with a cbor tag other than \"-\" (%s): layout not understood", pkg, name, tag)
			}
		}
		for _, nm := range f.Names {
			if ast.IsExported(nm.Name) {
				n++
			}
		}
	}
	if !asArray {
		fatal("%s.%s: not a cbor.StructAsArray struct", pkg, name)
	}
	return n
}

// lenCheck finds, inside function (recv).name, the comparison `len(<ident>) <op> <int>`
// that guards an error return, and returns (op, int).
func lenCheck(pkg, recv, name, ident string) (string, int) {
	p := loadPkg(pkg)
	fd := findFunc(p, recv, name)
	if fd == nil || fd.Body == nil {
		fatal("%s: %s.%s not found", pkg, recv, name)
	}
	type hit struct {
		op string
		v  int
	}
	hits := []hit{}
	ast.Inspect(fd.Body, func(n ast.Node) bool {
		is, ok := n.(*ast.IfStmt)
		if !ok {
			return true
		}
		be, ok := is.Cond.(*ast.BinaryExpr)
		if !ok {
			return true
		}
		c, ok := be.X.(*ast.CallExpr)
		if !ok || len(c.Args) != 1 {
			return true
		}
		if f, ok := c.Fun.(*ast.Ident); !ok || f.Name != "len" {
			return true
		}
		if a, ok := c.Args[0].(*ast.Ident); !ok || a.Name != ident {
			return true
		}
		lit, ok := be.Y.(*ast.BasicLit)
		if !ok || lit.Kind != token.INT {
			return true
		}
		// body must return an error
		ret := false
		for _, s := range is.Body.List {
			if _, ok := s.(*ast.ReturnStmt); ok {
				ret = true
			}
		}
		if !ret {
			return true
		}
		v, _ := strconv.Atoi(lit.Value)
		hits = append(hits, hit{be.Op.String(), v})
		return true
	})
	if len(hits) != 1 {
		fatal("%s: %s.%s: expected exactly one `len(%s) <op> <int>` error guard, found %d", pkg, recv, name, ident, len(hits))
	}
	return hits[0].op, hits[0].v
}

func genSegCounts() {
	l := newLean("SegCounts")
	l.pf("namespace GV.Gen.SegCounts\n")
	l.pf("/-- era ↦ literal `minRawLength` passed to common.ValidateBlockBodyHash in New<Era>BlockFromCbor -/\n")
	l.pf("def segCount : List (String × Nat) := [")
	for i, era := range segEras {
		if i > 0 {
			l.pf(", ")
		}
		l.pf("(\"%s\", %d)", era, segCountOf(era))
	}
	l.pf("]\n")
	l.pf("/-- era ↦ number of CBOR array elements of the struct <Era>Block.UnmarshalCBOR decodes into\n    (cbor.Decode into a StructAsArray struct demands exactly this many elements) -/\n")
	l.pf("def arity : List (String × Nat) := [")
	for i, era := range segEras {
		if i > 0 {
			l.pf(", ")
		}
		l.pf("(\"%s\", %d)", era, decodeArity("ledger/"+era, title(era)+"Block"))
	}
	l.pf("]\n")
	l.pf("/-- era ↦ number of exported CBOR array fields of the <Era>Block struct itself -/\n")
	l.pf("def structArity : List (String × Nat) := [")
	for i, era := range segEras {
		if i > 0 {
			l.pf(", ")
		}
		l.pf("(\"%s\", %d)", era, arrayArity("ledger/"+era, title(era)+"Block"))
	}
	l.pf("]\n")
	// Dijkstra: DijkstraBlock.UnmarshalCBOR demands len(items) != 2 -> error; body hash = hash of items[1]
	op, v := lenCheck("ledger/dijkstra", "DijkstraBlock", "UnmarshalCBOR", "items")
	if op != "!=" {
		fatal("ledger/dijkstra: DijkstraBlock.UnmarshalCBOR: arity guard is `len(items) %s %d`, expected `!=`", op, v)
	}
	l.pf("/-- DijkstraBlock.UnmarshalCBOR: `len(items) != %d` is an error -/\n", v)
	l.pf("def dijkstraArity : Nat := %d\n", v)
	l.pf("/-- exported array fields of DijkstraBlock -/\n")
	l.pf("def dijkstraFields : Nat := %d\n", arrayArity("ledger/dijkstra", "DijkstraBlock"))
	// Byron: main block [header, body, extra]; tx entry decoder demands `len(txArray) < 2` -> error
	l.pf("/-- exported array fields of ByronMainBlock ([header, body, extra]) -/\n")
	l.pf("def byronMainFields : Nat := %d\n", arrayArity("ledger/byron", "ByronMainBlock"))
	l.pf("/-- exported array fields of ByronMainBlockBody ([tx, ssc, dlg, upd]) -/\n")
	l.pf("def byronBodyFields : Nat := %d\n", arrayArity("ledger/byron", "ByronMainBlockBody"))
	op, v = lenCheck("ledger/byron", "ByronTransaction", "UnmarshalCBOR", "txArray")
	l.pf("/-- ByronTransaction.UnmarshalCBOR: `len(txArray) %s %d` is an error -/\n", op, v)
	l.pf("def byronTxGuardOp : String := \"%s\"\n", op)
	l.pf("def byronTxGuardN : Nat := %d\n", v)
	l.pf("end GV.Gen.SegCounts\n")
}
