package main

// C34 facts (group g10b), lean/GV/Gen/BodyGate.lean:
//   * verifyConfigBools — the boolean fields of common.VerifyConfig in declaration order (the
//     harness enumerates the same fields by reflection; a new toggle is picked up by both);
//   * gate — for every block constructor, the VerifyConfig field whose negation guards the
//     decode-time body check (`if !cfg.<Field> { …check… }`);
//   * the shape of ByronMainBlock.ValidateBodyProof: which payload-hash comparisons are
//     top-level statements of the function (reached whatever the config says) and how many
//     config-dependent branches return early.
// GV.Props.C34.gate_is_body_flag / byron_checks_unconditional are proved about these tables.

import (
	"go/ast"
	"go/token"
	"strconv"
	"strings"
)

func init() { registerGen(genBodyGate) }

// containsCall: does n contain a call whose function name (identifier or selector) is `name`?
func g10bContainsCall(n ast.Node, name string) bool {
	found := false
	ast.Inspect(n, func(m ast.Node) bool {
		c, ok := m.(*ast.CallExpr)
		if !ok {
			return true
		}
		switch f := c.Fun.(type) {
		case *ast.Ident:
			if f.Name == name {
				found = true
			}
		case *ast.SelectorExpr:
			if f.Sel.Name == name {
				found = true
			}
		}
		return true
	})
	return found
}

// gateOf: the field X of the innermost `if !<ident>.X { … }` that contains the check call;
// "" = the call is not guarded by such an if; "?" = guarded by something else.
func g10bGateOf(pkg, fn, call string) string {
	p := loadPkg(pkg)
	fd := findFunc(p, "", fn)
	if fd == nil || fd.Body == nil {
		fatal("%s: %s not found", pkg, fn)
	}
	if !g10bContainsCall(fd.Body, call) {
		fatal("%s: %s does not call %s (source shape no longer understood)", pkg, fn, call)
	}
	gate := ""
	var walk func(n ast.Node, cur string)
	walk = func(n ast.Node, cur string) {
		ast.Inspect(n, func(m ast.Node) bool {
			is, ok := m.(*ast.IfStmt)
			if !ok || m == n {
				if c, ok := m.(*ast.CallExpr); ok {
					switch f := c.Fun.(type) {
					case *ast.Ident:
						if f.Name == call {
							gate = cur
						}
					case *ast.SelectorExpr:
						if f.Sel.Name == call {
							gate = cur
						}
					}
				}
				return true
			}
			g := "?"
			if ue, ok := is.Cond.(*ast.UnaryExpr); ok && ue.Op == token.NOT {
				if se, ok := ue.X.(*ast.SelectorExpr); ok {
					if _, ok := se.X.(*ast.Ident); ok {
						g = se.Sel.Name
					}
				}
			} else if cur != "" {
				g = cur // nested error checks inside the gate keep the gate
			} else {
				g = ""
			}
			if is.Init != nil {
				walk(is.Init, cur)
			}
			walk(is.Body, g)
			if is.Else != nil {
				walk(is.Else, cur)
			}
			return false
		})
	}
	walk(fd.Body, "")
	return gate
}

func genBodyGate() {
	l := newLean("BodyGate")
	l.pf("namespace GV.Gen.BodyGate\n")
	// VerifyConfig bool fields
	st := findStruct(loadPkg("ledger/common"), "VerifyConfig")
	if st == nil {
		fatal("ledger/common: struct VerifyConfig not found")
	}
	var bools []string
	for _, f := range st.Fields.List {
		if id, ok := f.Type.(*ast.Ident); ok && id.Name == "bool" {
			for _, n := range f.Names {
				bools = append(bools, strconv.Quote(n.Name))
			}
		}
	}
	if len(bools) == 0 {
		fatal("ledger/common: VerifyConfig has no bool fields (source shape no longer understood)")
	}
	l.pf("/-- boolean fields of common.VerifyConfig, in declaration order -/\n")
	l.pf("def verifyConfigBools : List String := [%s]\n", strings.Join(bools, ", "))
	type ctor struct{ era, pkg, fn, call string }
	ctors := []ctor{
		{"byron", "ledger/byron", "NewByronMainBlockFromCbor", "ValidateBodyProof"},
		{"byronebb", "ledger/byron", "NewByronEpochBoundaryBlockFromCbor", "ValidateBodyProof"},
	}
	for _, era := range segEras {
		ctors = append(ctors, ctor{era, "ledger/" + era, "New" + title(era) + "BlockFromCbor", "ValidateBlockBodyHash"})
	}
	ctors = append(ctors, ctor{"dijkstra", "ledger/dijkstra", "NewDijkstraBlockFromCbor", "CalculatedBlockBodyHash"})
	l.pf("/-- era ↦ the VerifyConfig field whose negation guards the decode-time body check in the\n    era's block constructor (\"\" = unguarded, \"?\" = guarded by something else) -/\n")
	l.pf("def gate : List (String × String) := [")
	for i, c := range ctors {
		if i > 0 {
			l.pf(", ")
		}
		l.pf("(\"%s\", %s)", c.era, strconv.Quote(g10bGateOf(c.pkg, c.fn, c.call)))
	}
	l.pf("]\n")
	// ByronMainBlock.ValidateBodyProof
	fd := findFunc(loadPkg("ledger/byron"), "ByronMainBlock", "ValidateBodyProof")
	if fd == nil || fd.Body == nil {
		fatal("ledger/byron: ByronMainBlock.ValidateBodyProof not found")
	}
	var top []string
	early := 0
	isErrCond := func(e ast.Expr) bool {
		be, ok := e.(*ast.BinaryExpr)
		if !ok || be.Op != token.NEQ {
			return false
		}
		id, ok := be.X.(*ast.Ident)
		nl, ok2 := be.Y.(*ast.Ident)
		return ok && ok2 && id.Name == "err" && nl.Name == "nil"
	}
	label := func(n ast.Node) {
		ast.Inspect(n, func(m ast.Node) bool {
			c, ok := m.(*ast.CallExpr)
			if !ok {
				return true
			}
			if id, ok := c.Fun.(*ast.Ident); ok && id.Name == "checkPayloadHash" && len(c.Args) > 0 {
				if lit, ok := c.Args[0].(*ast.BasicLit); ok && lit.Kind == token.STRING {
					top = append(top, lit.Value)
				}
			}
			if se, ok := c.Fun.(*ast.SelectorExpr); ok && se.Sel.Name == "validateTxProof" {
				top = append(top, "\"tx\"")
			}
			return true
		})
	}
	for _, s := range fd.Body.List {
		switch x := s.(type) {
		case *ast.IfStmt:
			if isErrCond(x.Cond) {
				// `if err := <check>; err != nil { return err }`: the check is unconditional
				if x.Init != nil {
					label(x.Init)
				}
			} else {
				for _, b := range x.Body.List {
					if _, ok := b.(*ast.ReturnStmt); ok {
						early++
					}
				}
			}
		case *ast.ReturnStmt:
			label(x)
		}
	}
	l.pf("/-- ByronMainBlock.ValidateBodyProof: the component checks that are top-level statements of\n    the function (reached whatever the VerifyConfig says) -/\n")
	l.pf("def byronUnconditionalChecks : List String := [%s]\n", strings.Join(top, ", "))
	l.pf("/-- … and the number of top-level branches on something other than `err != nil` that return\n    directly (a config-dependent early exit) -/\n")
	l.pf("def byronEarlyReturns : Nat := %d\n", early)
	l.pf("end GV.Gen.BodyGate\n")
}
