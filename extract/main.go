// gvx — fact extractor and GoLite→Lean translator (standard library only).
//
//	gvx -repo /repo -out <dir>
//
// Reads /repo's Go source with go/parser and writes Lean files into <dir>
// (copied to lean/GV/Gen by ./check). It refuses what it does not understand:
// a requested fact or function that is missing or outside the supported
// subset is a hard error, never a guess.
package main

import (
	"flag"
	"fmt"
	"go/ast"
	"go/parser"
	"go/token"
	"os"
	"path/filepath"
	"sort"
	"strings"
)

var fset = token.NewFileSet()

type pkgInfo struct {
	dir   string
	files []*ast.File
}

var pkgs = map[string]*pkgInfo{}
var repoRoot string

// loadPkg parses the non-test files of one package directory (relative to the repo).
func loadPkg(rel string) *pkgInfo {
	if p, ok := pkgs[rel]; ok {
		return p
	}
	dir := filepath.Join(repoRoot, rel)
	ents, err := os.ReadDir(dir)
	if err != nil {
		fatal("cannot read package dir %s: %v", rel, err)
	}
	p := &pkgInfo{dir: rel}
	for _, e := range ents {
		n := e.Name()
		if e.IsDir() || !strings.HasSuffix(n, ".go") || strings.HasSuffix(n, "_test.go") {
			continue
		}
		src, err := os.ReadFile(filepath.Join(dir, n))
		if err != nil {
			fatal("%v", err)
		}
		// skip files guarded by the verif tag (hooks are not part of the model)
		if strings.Contains(string(src[:min(len(src), 400)]), "//go:build verif") {
			continue
		}
		f, err := parser.ParseFile(fset, filepath.Join(dir, n), src, parser.ParseComments)
		if err != nil {
			fatal("parse %s: %v", n, err)
		}
		p.files = append(p.files, f)
	}
	pkgs[rel] = p
	return p
}

func fatal(format string, a ...any) {
	fmt.Fprintf(os.Stderr, "gvx: "+format+"\n", a...)
	os.Exit(1)
}

func findFunc(p *pkgInfo, recv, name string) *ast.FuncDecl {
	for _, f := range p.files {
		for _, d := range f.Decls {
			fd, ok := d.(*ast.FuncDecl)
			if !ok || fd.Name.Name != name {
				continue
			}
			r := ""
			if fd.Recv != nil && len(fd.Recv.List) == 1 {
				t := fd.Recv.List[0].Type
				if st, ok := t.(*ast.StarExpr); ok {
					t = st.X
				}
				if id, ok := t.(*ast.Ident); ok {
					r = id.Name
				}
			}
			if r == recv {
				return fd
			}
		}
	}
	return nil
}

func findVar(p *pkgInfo, name string) ast.Expr {
	for _, f := range p.files {
		for _, d := range f.Decls {
			gd, ok := d.(*ast.GenDecl)
			if !ok || (gd.Tok != token.VAR && gd.Tok != token.CONST) {
				continue
			}
			for _, s := range gd.Specs {
				vs := s.(*ast.ValueSpec)
				for i, n := range vs.Names {
					if n.Name == name && i < len(vs.Values) {
						return vs.Values[i]
					}
				}
			}
		}
	}
	return nil
}

type leanFile struct {
	name string
	sb   strings.Builder
}

func (l *leanFile) pf(format string, a ...any) { fmt.Fprintf(&l.sb, format, a...) }

var outFiles []*leanFile

// generators are registered from init() functions (one file per property
// group: facts_<group>.go), so that groups can be developed independently.
var generators []func()

func registerGen(g func()) { generators = append(generators, g) }

func newLean(name string) *leanFile {
	l := &leanFile{name: name}
	l.pf("-- GENERATED from the repository source by /verif/extract (gvx) on every run: do not edit\n")
	outFiles = append(outFiles, l)
	return l
}

func main() {
	repo := flag.String("repo", "/repo", "repository root")
	out := flag.String("out", "", "output directory")
	flag.Parse()
	if *out == "" {
		fatal("need -out")
	}
	repoRoot = *repo
	for _, g := range generators {
		g()
	}
	genGoLite()
	names := []string{}
	for _, l := range outFiles {
		if err := os.WriteFile(filepath.Join(*out, l.name+".lean"), []byte(l.sb.String()), 0o644); err != nil {
			fatal("%v", err)
		}
		names = append(names, l.name)
	}
	sort.Strings(names)
	fmt.Printf("gvx: wrote %s\n", strings.Join(names, " "))
}
