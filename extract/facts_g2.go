package main

// g2 (C18/C19): how the handshake server puts its replies on the wire, and what
// the handshake client checks before it completes — read off the source on
// every run (go/ast), so that reverting a SendMessageAndWait to SendMessage or
// dropping one of the client's checks breaks a Lean obligation.

import (
	"go/ast"
	"strings"
)

func g2CallName(x ast.Expr) (recv, name string, args []ast.Expr, ok bool) {
	c, ok := x.(*ast.CallExpr)
	if !ok {
		return
	}
	sel, ok := c.Fun.(*ast.SelectorExpr)
	if !ok {
		return "", "", nil, false
	}
	if id, ok2 := sel.X.(*ast.Ident); ok2 {
		recv = id.Name
	}
	return recv, sel.Sel.Name, c.Args, true
}

// g2IsErrReturn: `return errors.New(…)` / `return fmt.Errorf(…)`
func g2IsErrReturn(s ast.Stmt) bool {
	r, ok := s.(*ast.ReturnStmt)
	if !ok || len(r.Results) != 1 {
		return false
	}
	recv, name, _, ok := g2CallName(r.Results[0])
	return ok && ((recv == "errors" && name == "New") || (recv == "fmt" && name == "Errorf"))
}

func init() {
	registerGen(func() {
		p := loadPkg("protocol/handshake")
		fd := findFunc(p, "Server", "handleProposeVersions")
		if fd == nil {
			fatal("handshake.Server.handleProposeVersions not found")
		}
		type send struct {
			arg, method string
			stops       bool
		}
		var sends []send
		var walkBlock func(b *ast.BlockStmt)
		walkBlock = func(b *ast.BlockStmt) {
			for i, st := range b.List {
				// if err := s.SendX(msg); err != nil { return err }
				if ifs, ok := st.(*ast.IfStmt); ok {
					if as, ok := ifs.Init.(*ast.AssignStmt); ok && len(as.Rhs) == 1 {
						if recv, name, args, ok := g2CallName(as.Rhs[0]); ok && recv == "s" && strings.HasPrefix(name, "SendMessage") && len(args) == 1 {
							arg := "?"
							if id, ok := args[0].(*ast.Ident); ok {
								arg = id.Name
							}
							stops := i+1 < len(b.List) && g2IsErrReturn(b.List[i+1])
							sends = append(sends, send{arg, name, stops})
						}
					}
				}
				ast.Inspect(st, func(n ast.Node) bool {
					if bb, ok := n.(*ast.BlockStmt); ok && n != ast.Node(b) {
						walkBlock(bb)
						return false
					}
					return true
				})
			}
		}
		walkBlock(fd.Body)
		// any other s.SendMessage* call we did not understand must be reported too
		total := 0
		ast.Inspect(fd.Body, func(n ast.Node) bool {
			if recv, name, _, ok := g2CallName0(n); ok && recv == "s" && strings.HasPrefix(name, "SendMessage") {
				total++
			}
			return true
		})
		if total != len(sends) {
			fatal("handleProposeVersions: %d SendMessage* calls, %d understood", total, len(sends))
		}
		l := newLean("HandshakeSends")
		l.pf("namespace GV.Gen.HandshakeSends\n")
		l.pf("/-- every `s.SendMessage*(msg)` of handshake.Server.handleProposeVersions in source order:\n")
		l.pf("    (message variable, method, the next statement returns an error = the protocol is stopped) -/\n")
		l.pf("def serverSends : List (String × String × Bool) := [\n")
		for i, s := range sends {
			sep := ","
			if i == len(sends)-1 {
				sep = ""
			}
			b := "false"
			if s.stops {
				b = "true"
			}
			l.pf("  (%q, %q, %s)%s\n", s.arg, s.method, b, sep)
		}
		l.pf("]\n")

		// client: what handleAcceptVersion / handleQueryReply consult
		cf := findFunc(p, "Client", "handleAcceptVersion")
		if cf == nil {
			fatal("handshake.Client.handleAcceptVersion not found")
		}
		indexesProposed, magicCmp, finishCalls := 0, 0, 0
		ast.Inspect(cf.Body, func(n ast.Node) bool {
			switch x := n.(type) {
			case *ast.IndexExpr:
				if sel, ok := x.X.(*ast.SelectorExpr); ok && sel.Sel.Name == "ProtocolVersionMap" {
					indexesProposed++
				}
			case *ast.BinaryExpr:
				_, ln, _, ok1 := g2CallName(x.X)
				_, rn, _, ok2 := g2CallName(x.Y)
				if ok1 && ok2 && ln == "NetworkMagic" && rn == "NetworkMagic" && x.Op.String() == "!=" {
					magicCmp++
				}
			case *ast.CallExpr:
				if sel, ok := x.Fun.(*ast.SelectorExpr); ok && sel.Sel.Name == "FinishedFunc" {
					finishCalls++
				}
			}
			return true
		})
		l.pf("/-- handshake.Client.handleAcceptVersion: number of lookups in the proposed map, of\n")
		l.pf("    `a.NetworkMagic() != b.NetworkMagic()` comparisons, and of FinishedFunc calls -/\n")
		l.pf("def clientAcceptLooksUpProposed : Nat := %d\n", indexesProposed)
		l.pf("def clientAcceptMagicComparisons : Nat := %d\n", magicCmp)
		l.pf("def clientAcceptFinishCalls : Nat := %d\n", finishCalls)
		l.pf("end GV.Gen.HandshakeSends\n")
	})
}

func g2CallName0(n ast.Node) (string, string, []ast.Expr, bool) {
	x, ok := n.(ast.Expr)
	if !ok {
		return "", "", nil, false
	}
	return g2CallName(x)
}
