package main

// g2 (C18/C19): how the handshake server puts its replies on the wire, and what
// the handshake client checks before it completes — read off the source on
// every run (go/ast), so that reverting a SendMessageAndWait to SendMessage or
// dropping one of the client's checks breaks a Lean obligation.

import (
	"go/ast"
	"go/printer"
	"go/token"
	"strings"
)

func g2CallName(x ast.Expr) (recv, name string, args []ast.Expr, ok bool) {
	c, ok := x.(*ast.CallExpr)
	if !ok {
		return
	}
	sel, ok := c.Fun.(*ast.SelectorExpr)
	if !ok {
		return "", "", nil, false
	}
	if id, ok2 := sel.X.(*ast.Ident); ok2 {
		recv = id.Name
	}
	return recv, sel.Sel.Name, c.Args, true
}

// g2IsErrReturn: `return errors.New(…)` / `return fmt.Errorf(…)`
func g2IsErrReturn(s ast.Stmt) bool {
	r, ok := s.(*ast.ReturnStmt)
	if !ok || len(r.Results) != 1 {
		return false
	}
	recv, name, _, ok := g2CallName(r.Results[0])
	return ok && ((recv == "errors" && name == "New") || (recv == "fmt" && name == "Errorf"))
}

func init() {
	registerGen(func() {
		p := loadPkg("protocol/handshake")
		fd := findFunc(p, "Server", "handleProposeVersions")
		if fd == nil {
			fatal("handshake.Server.handleProposeVersions not found")
		}
		type send struct {
			arg, method string
			stops       bool
		}
		var sends []send
		var walkBlock func(b *ast.BlockStmt)
		walkBlock = func(b *ast.BlockStmt) {
			for i, st := range b.List {
				// if err := s.SendX(msg); err != nil { return err }
				if ifs, ok := st.(*ast.IfStmt); ok {
					if as, ok := ifs.Init.(*ast.AssignStmt); ok && len(as.Rhs) == 1 {
						if recv, name, args, ok := g2CallName(as.Rhs[0]); ok && recv == "s" && strings.HasPrefix(name, "SendMessage") && len(args) == 1 {
							arg := "?"
							if id, ok := args[0].(*ast.Ident); ok {
								arg = id.Name
							}
							stops := i+1 < len(b.List) && g2IsErrReturn(b.List[i+1])
							sends = append(sends, send{arg, name, stops})
						}
					}
				}
				ast.Inspect(st, func(n ast.Node) bool {
					if bb, ok := n.(*ast.BlockStmt); ok && n != ast.Node(b) {
						walkBlock(bb)
						return false
					}
					return true
				})
			}
		}
		walkBlock(fd.Body)
		// any other s.SendMessage* call we did not understand must be reported too
		total := 0
		ast.Inspect(fd.Body, func(n ast.Node) bool {
			if recv, name, _, ok := g2CallName0(n); ok && recv == "s" && strings.HasPrefix(name, "SendMessage") {
				total++
			}
			return true
		})
		if total != len(sends) {
			fatal("handleProposeVersions: %d SendMessage* calls, %d understood", total, len(sends))
		}
		l := newLean("HandshakeSends")
		l.pf("namespace GV.Gen.HandshakeSends\n")
		l.pf("/-- every `s.SendMessage*(msg)` of handshake.Server.handleProposeVersions in source order:\n")
		l.pf("    (message variable, method, the next statement returns an error = the protocol is stopped) -/\n")
		l.pf("def serverSends : List (String × String × Bool) := [\n")
		for i, s := range sends {
			sep := ","
			if i == len(sends)-1 {
				sep = ""
			}
			b := "false"
			if s.stops {
				b = "true"
			}
			l.pf("  (%q, %q, %s)%s\n", s.arg, s.method, b, sep)
		}
		l.pf("]\n")

		// client: what handleAcceptVersion / handleQueryReply consult
		cf := findFunc(p, "Client", "handleAcceptVersion")
		if cf == nil {
			fatal("handshake.Client.handleAcceptVersion not found")
		}
		indexesProposed, magicCmp, finishCalls := 0, 0, 0
		ast.Inspect(cf.Body, func(n ast.Node) bool {
			switch x := n.(type) {
			case *ast.IndexExpr:
				if sel, ok := x.X.(*ast.SelectorExpr); ok && sel.Sel.Name == "ProtocolVersionMap" {
					indexesProposed++
				}
			case *ast.BinaryExpr:
				_, ln, _, ok1 := g2CallName(x.X)
				_, rn, _, ok2 := g2CallName(x.Y)
				if ok1 && ok2 && ln == "NetworkMagic" && rn == "NetworkMagic" && x.Op.String() == "!=" {
					magicCmp++
				}
			case *ast.CallExpr:
				if sel, ok := x.Fun.(*ast.SelectorExpr); ok && sel.Sel.Name == "FinishedFunc" {
					finishCalls++
				}
			}
			return true
		})
		l.pf("/-- handshake.Client.handleAcceptVersion: number of lookups in the proposed map, of\n")
		l.pf("    `a.NetworkMagic() != b.NetworkMagic()` comparisons, and of FinishedFunc calls -/\n")
		l.pf("def clientAcceptLooksUpProposed : Nat := %d\n", indexesProposed)
		l.pf("def clientAcceptMagicComparisons : Nat := %d\n", magicCmp)
		l.pf("def clientAcceptFinishCalls : Nat := %d\n", finishCalls)
		// integer conversions inside handleAcceptVersion (a narrowing of the accepted version would be one)
		convs := 0
		ast.Inspect(cf.Body, func(n ast.Node) bool {
			if call, ok := n.(*ast.CallExpr); ok && len(call.Args) == 1 {
				if id, ok := call.Fun.(*ast.Ident); ok {
					switch id.Name {
					case "uint8", "uint16", "uint32", "uint64", "uint", "int", "int8", "int16", "int32", "int64":
						convs++
					}
				}
			}
			return true
		})
		l.pf("/-- integer type conversions in handleAcceptVersion -/\n")
		l.pf("def clientAcceptIntConversions : Nat := %d\n", convs)
		// field types of the handshake messages and refusal errors
		l.pf("/-- (struct, field, Go type) of the handshake message / refusal error structs -/\n")
		l.pf("def fieldTypes : List (String × String × String) := [\n")
		firstFT := true
		for _, f := range p.files {
			for _, d := range f.Decls {
				gd, ok := d.(*ast.GenDecl)
				if !ok {
					continue
				}
				for _, sp := range gd.Specs {
					ts, ok := sp.(*ast.TypeSpec)
					if !ok {
						continue
					}
					switch ts.Name.Name {
					case "MsgProposeVersions", "MsgAcceptVersion", "MsgRefuse", "MsgQueryReply", "VersionMismatchError", "DecodeError", "RefusedError":
					default:
						continue
					}
					st, ok := ts.Type.(*ast.StructType)
					if !ok {
						continue
					}
					for _, fl := range st.Fields.List {
						for _, nm := range fl.Names {
							if !firstFT {
								l.pf(",\n")
							}
							firstFT = false
							l.pf("  (%q, %q, %q)", ts.Name.Name, nm.Name, g2ExprString(fl.Type))
						}
					}
				}
			}
		}
		l.pf("]\n")
		// the FinishedFunc callback type
		for _, f := range p.files {
			for _, d := range f.Decls {
				if gd, ok := d.(*ast.GenDecl); ok {
					for _, sp := range gd.Specs {
						if ts, ok := sp.(*ast.TypeSpec); ok && ts.Name.Name == "FinishedFunc" {
							l.pf("def finishedFuncType : String := %q\n", g2ExprString(ts.Type))
						}
					}
				}
			}
		}
		l.pf("end GV.Gen.HandshakeSends\n")
	})
}

func g2CallName0(n ast.Node) (string, string, []ast.Expr, bool) {
	x, ok := n.(ast.Expr)
	if !ok {
		return "", "", nil, false
	}
	return g2CallName(x)
}

// ---- C17: connection.go setupConnection — which role of which mini-protocol is registered /
// started under which condition (go/ast, re-read on every run) ----

func g2ExprString(x ast.Expr) string {
	var sb strings.Builder
	_ = printer.Fprint(&sb, token.NewFileSet(), x)
	return strings.Join(strings.Fields(sb.String()), " ")
}

// g2RoleCall recognises `c.<field>.<Server|Client>.<EnsureRegistered|Start>()`
func g2RoleCall(s ast.Stmt) (field, role, method string, ok bool) {
	es, ok := s.(*ast.ExprStmt)
	if !ok {
		return
	}
	call, ok := es.X.(*ast.CallExpr)
	if !ok || len(call.Args) != 0 {
		return "", "", "", false
	}
	m, ok := call.Fun.(*ast.SelectorExpr)
	if !ok || (m.Sel.Name != "EnsureRegistered" && m.Sel.Name != "Start") {
		return "", "", "", false
	}
	r, ok := m.X.(*ast.SelectorExpr)
	if !ok || (r.Sel.Name != "Server" && r.Sel.Name != "Client") {
		return "", "", "", false
	}
	f, ok := r.X.(*ast.SelectorExpr)
	if !ok {
		return "", "", "", false
	}
	if id, ok2 := f.X.(*ast.Ident); !ok2 || id.Name != "c" {
		return "", "", "", false
	}
	return f.Sel.Name, r.Sel.Name, m.Sel.Name, true
}

type g2RoleFact struct{ branch, outer, field, role, method, guard string }

func init() {
	registerGen(func() {
		p := loadPkg(".")
		fd := findFunc(p, "Connection", "setupConnection")
		if fd == nil {
			fatal("Connection.setupConnection not found")
		}
		var facts []g2RoleFact
		// collect role calls of one block (direct statements, or wrapped in one guarding `if` without else)
		collect := func(branch, outer string, b *ast.BlockStmt) int {
			n := 0
			for _, st := range b.List {
				if f, r, m, ok := g2RoleCall(st); ok {
					facts = append(facts, g2RoleFact{branch, outer, f, r, m, ""})
					n++
					continue
				}
				if ifs, ok := st.(*ast.IfStmt); ok && ifs.Else == nil && ifs.Init == nil {
					for _, st2 := range ifs.Body.List {
						if f, r, m, ok := g2RoleCall(st2); ok {
							facts = append(facts, g2RoleFact{branch, outer, f, r, m, g2ExprString(ifs.Cond)})
							n++
						}
					}
				}
			}
			return n
		}
		var walkBranch func(branch, outer string, b *ast.BlockStmt)
		walkBranch = func(branch, outer string, b *ast.BlockStmt) {
			for _, st := range b.List {
				ifs, ok := st.(*ast.IfStmt)
				if !ok || ifs.Init != nil {
					continue
				}
				cond := g2ExprString(ifs.Cond)
				full := cond
				if outer != "" {
					full = outer + " ; " + cond
				}
				direct := false
				for _, st2 := range ifs.Body.List {
					if _, _, _, ok := g2RoleCall(st2); ok {
						direct = true
					}
				}
				if direct {
					collect(branch, full, ifs.Body)
				} else {
					// a wrapper such as `if !c.delayProtocolStart { … }`
					walkBranch(branch, full, ifs.Body)
				}
			}
		}
		// the mode chain: if c.useNodeToNodeProto {…} else if c.useDMQProtocol {…} else {…}
		found := false
		for _, st := range fd.Body.List {
			ifs, ok := st.(*ast.IfStmt)
			if !ok || g2ExprString(ifs.Cond) != "c.useNodeToNodeProto" {
				continue
			}
			e1, ok := ifs.Else.(*ast.IfStmt)
			if !ok || g2ExprString(e1.Cond) != "c.useDMQProtocol" {
				continue
			}
			e2, ok := e1.Else.(*ast.BlockStmt)
			if !ok {
				continue
			}
			found = true
			walkBranch("ntn", "", ifs.Body)
			walkBranch("dmq", "", e1.Body)
			walkBranch("ntc", "", e2)
		}
		if !found {
			fatal("setupConnection: mode chain (NtN / DMQ / NtC) not found")
		}
		// every EnsureRegistered / Start call of the function must have been understood
		total := 0
		ast.Inspect(fd.Body, func(n ast.Node) bool {
			if st, ok := n.(ast.Stmt); ok {
				if _, _, _, ok := g2RoleCall(st); ok {
					total++
				}
			}
			return true
		})
		// the handshake's own Start calls are `c.handshake.Server.Start()` / Client: counted but not in the chain
		hs := 0
		ast.Inspect(fd.Body, func(n ast.Node) bool {
			if st, ok := n.(ast.Stmt); ok {
				if f, _, _, ok := g2RoleCall(st); ok && f == "handshake" {
					hs++
				}
			}
			return true
		})
		if total-hs != len(facts) {
			fatal("setupConnection: %d role calls, %d understood", total-hs, len(facts))
		}
		l := newLean("ConnSetupFacts")
		l.pf("namespace GV.Gen.ConnSetupFacts\n")
		l.pf("/-- every `c.<field>.<Server|Client>.<EnsureRegistered|Start>()` of Connection.setupConnection:\n")
		l.pf("    (mode branch, enclosing conditions joined by ` ; `, field, role, method, own guard) -/\n")
		l.pf("def roleCalls : List (String × String × String × String × String × String) := [\n")
		for i, f := range facts {
			sep := ","
			if i == len(facts)-1 {
				sep = ""
			}
			l.pf("  (%q, %q, %q, %q, %q, %q)%s\n", f.branch, f.outer, f.field, f.role, f.method, f.guard, sep)
		}
		l.pf("]\n")
		l.pf("end GV.Gen.ConnSetupFacts\n")
	})
}
