package main

func init() {
	registerGen(func() {
		emitConsts("Limits", [][3]string{
			{"muxer", "SegmentMaxPayloadLength", "segmentMaxPayloadLength"},
			{"muxer", "segmentProtocolIdResponseFlag", "segmentProtocolIdResponseFlag"},
			{"protocol", "maxMessagesPerSegment", "maxMessagesPerSegment"},
			{"protocol", "maxReadBufferSize", "maxReadBufferSize"},
		})
	})
	registerGoLite(goLiteFunc{pkg: "ledger/common", name: "CalculateMinFee", leanName: "calculateMinFee"})
	registerGoLite(goLiteFunc{pkg: "ledger/common", name: "cborArrayHeaderSize", leanName: "cborArrayHeaderSize"})
	registerGoLite(goLiteFunc{pkg: "ledger/common", name: "AddInt64Checked", leanName: "addInt64Checked"})
	registerGoLite(goLiteFunc{pkg: "ledger/byron", name: "largestPowerOfTwoBelow", leanName: "largestPowerOfTwoBelow", fuel: "64"})
}
