package main

// C01 facts (group g10b): which ledger types re-serialise to their stored wire bytes.
//
// For every `func (x *T) MarshalCBOR()` / `func (x T) MarshalCBOR()` in the era packages the
// extractor decides syntactically whether the method returns the stored bytes when there are
// any: it must contain an `if` statement whose condition mentions `x.Cbor()` (directly or via a
// variable initialised from it in the if's init clause) and whose body returns that value with a
// nil error. Struct embedding of ledger types is recorded too, so that a promoted method is
// found (AllegraBlockHeader embeds shelley.ShelleyBlockHeader, …).
// Written to lean/GV/Gen/Preserve.lean; GV.Props.C01.headers_and_blocks_preserve is proved about
// the generated tables, so deleting such a method (or its stored-bytes branch) breaks a proof
// obligation without any test input.

import (
	"go/ast"
	"sort"
	"strings"
)

var g10bPreserveEras = []string{"byron", "shelley", "allegra", "mary", "alonzo", "babbage", "conway", "dijkstra"}

func init() { registerGen(genPreserve) }

func g10bRecv(fd *ast.FuncDecl) (name, typ string) {
	if fd.Recv == nil || len(fd.Recv.List) != 1 {
		return "", ""
	}
	f := fd.Recv.List[0]
	if len(f.Names) == 1 {
		name = f.Names[0].Name
	}
	t := f.Type
	if st, ok := t.(*ast.StarExpr); ok {
		t = st.X
	}
	if id, ok := t.(*ast.Ident); ok {
		typ = id.Name
	}
	return
}

// isCborCall: <recv>.Cbor()
func g10bIsCborCall(e ast.Expr, recv string) bool {
	c, ok := e.(*ast.CallExpr)
	if !ok || len(c.Args) != 0 {
		return false
	}
	se, ok := c.Fun.(*ast.SelectorExpr)
	if !ok || se.Sel.Name != "Cbor" {
		return false
	}
	id, ok := se.X.(*ast.Ident)
	return ok && id.Name == recv
}

func g10bReturnsStored(fd *ast.FuncDecl, recv string) bool {
	found := false
	ast.Inspect(fd.Body, func(n ast.Node) bool {
		is, ok := n.(*ast.IfStmt)
		if !ok {
			return true
		}
		// the value that stands for the stored bytes inside this if
		stored := func(e ast.Expr) bool { return g10bIsCborCall(e, recv) }
		if as, ok := is.Init.(*ast.AssignStmt); ok && len(as.Lhs) == 1 && len(as.Rhs) == 1 && g10bIsCborCall(as.Rhs[0], recv) {
			if id, ok := as.Lhs[0].(*ast.Ident); ok {
				v := id.Name
				stored = func(e ast.Expr) bool {
					i, ok := e.(*ast.Ident)
					return (ok && i.Name == v) || g10bIsCborCall(e, recv)
				}
			}
		}
		// condition must mention the stored bytes (x.Cbor() != nil, len(x.Cbor()) > 0, v != nil …)
		mentions := false
		ast.Inspect(is.Cond, func(m ast.Node) bool {
			if e, ok := m.(ast.Expr); ok && stored(e) {
				mentions = true
			}
			return true
		})
		if !mentions {
			return true
		}
		for _, st := range is.Body.List {
			rs, ok := st.(*ast.ReturnStmt)
			if !ok || len(rs.Results) != 2 {
				continue
			}
			if id, ok := rs.Results[1].(*ast.Ident); ok && id.Name == "nil" && stored(rs.Results[0]) {
				found = true
			}
		}
		return true
	})
	return found
}

func genPreserve() {
	var preserving, other []string
	embeds := map[string][]string{}
	for _, era := range g10bPreserveEras {
		p := loadPkg("ledger/" + era)
		for _, f := range p.files {
			for _, d := range f.Decls {
				switch x := d.(type) {
				case *ast.FuncDecl:
					if x.Name.Name != "MarshalCBOR" || x.Body == nil {
						continue
					}
					rn, rt := g10bRecv(x)
					if rt == "" {
						continue
					}
					if rn != "" && g10bReturnsStored(x, rn) {
						preserving = append(preserving, era+"."+rt)
					} else {
						other = append(other, era+"."+rt)
					}
				case *ast.GenDecl:
					for _, s := range x.Specs {
						ts, ok := s.(*ast.TypeSpec)
						if !ok {
							continue
						}
						st, ok := ts.Type.(*ast.StructType)
						if !ok {
							continue
						}
						for _, fl := range st.Fields.List {
							if len(fl.Names) != 0 {
								continue
							}
							t := fl.Type
							if se, ok := t.(*ast.StarExpr); ok {
								t = se.X
							}
							switch e := t.(type) {
							case *ast.Ident:
								embeds[era+"."+ts.Name.Name] = append(embeds[era+"."+ts.Name.Name], era+"."+e.Name)
							case *ast.SelectorExpr:
								if pk, ok := e.X.(*ast.Ident); ok && pk.Name != "cbor" && pk.Name != "common" {
									embeds[era+"."+ts.Name.Name] = append(embeds[era+"."+ts.Name.Name], pk.Name+"."+e.Sel.Name)
								}
							}
						}
					}
				}
			}
		}
	}
	if len(preserving) == 0 {
		fatal("ledger/*: no MarshalCBOR returning stored bytes found (source shape no longer understood)")
	}
	sort.Strings(preserving)
	sort.Strings(other)
	q := func(l []string) string {
		for i := range l {
			l[i] = "\"" + l[i] + "\""
		}
		return "[" + strings.Join(l, ", ") + "]"
	}
	l := newLean("Preserve")
	l.pf("namespace GV.Gen.Preserve\n\n")
	l.pf("/-- types whose MarshalCBOR returns the stored wire bytes when present -/\ndef preservingDecls : List String :=\n  %s\n\n", q(preserving))
	l.pf("/-- types whose MarshalCBOR always re-encodes -/\ndef otherMarshalDecls : List String :=\n  %s\n\n", q(other))
	keys := make([]string, 0, len(embeds))
	for k := range embeds {
		keys = append(keys, k)
	}
	sort.Strings(keys)
	l.pf("/-- embedded (anonymous) ledger struct fields: methods are promoted from these -/\ndef embeds : List (String × List String) :=\n  [")
	for i, k := range keys {
		if i > 0 {
			l.pf(",\n   ")
		}
		l.pf("(\"%s\", %s)", k, q(embeds[k]))
	}
	l.pf("]\n\nend GV.Gen.Preserve\n")
}
