package main

// Facts for C45 (group g6): the integer statements of CalculateRewards and
// distributePoolRewards in ledger/common/rewards.go, translated expression by
// expression into Lean definitions over Nat with explicit uint64 wrap
// (GV.Gen.RewardsInt). Every `uint64(<float expression>)` becomes the parameter
// `fd`; identifiers become parameters (`a.b` -> `a_b`, `len(x)` -> `len_x`),
// listed in alphabetical order. GV/Proofs/RewardsGen.lean proves each generated
// definition equal to the piece of the hand model GV.Model.Rewards that the
// theorems of C45 are about, so that an edited operator, operand, clamp or
// condition in the Go source breaks a proof obligation.

import (
	"fmt"
	"go/ast"
	"go/token"
	"sort"
	"strings"
)

type g6Tr struct {
	vars map[string]bool
	what string
}

func (t *g6Tr) v(name string) string {
	t.vars[name] = true
	return name
}

// expr translates a uint64 / bool expression. Unknown shapes are refused.
func (t *g6Tr) expr(x ast.Expr) string {
	switch e := x.(type) {
	case *ast.ParenExpr:
		return t.expr(e.X)
	case *ast.Ident:
		return t.v(e.Name)
	case *ast.BasicLit:
		if e.Kind == token.INT {
			return e.Value
		}
	case *ast.SelectorExpr:
		if id, ok := e.X.(*ast.Ident); ok {
			return t.v(id.Name + "_" + e.Sel.Name)
		}
	case *ast.CallExpr:
		if id, ok := e.Fun.(*ast.Ident); ok {
			switch {
			case id.Name == "uint64" && len(e.Args) == 1:
				return t.v("fd") // float-derived: uninterpreted
			case id.Name == "min" && len(e.Args) == 2:
				return fmt.Sprintf("(min %s %s)", t.expr(e.Args[0]), t.expr(e.Args[1]))
			case id.Name == "len" && len(e.Args) == 1:
				if a, ok := e.Args[0].(*ast.Ident); ok {
					return t.v("len_" + a.Name)
				}
			}
		}
	case *ast.BinaryExpr:
		a, b := t.expr(e.X), t.expr(e.Y)
		switch e.Op {
		case token.ADD:
			return fmt.Sprintf("(addW %s %s)", a, b)
		case token.SUB:
			return fmt.Sprintf("(subW %s %s)", a, b)
		case token.LEQ:
			return fmt.Sprintf("(decide (%s ≤ %s))", a, b)
		case token.LSS:
			return fmt.Sprintf("(decide (%s < %s))", a, b)
		case token.GEQ:
			return fmt.Sprintf("(decide (%s ≥ %s))", a, b)
		case token.GTR:
			return fmt.Sprintf("(decide (%s > %s))", a, b)
		case token.EQL:
			return fmt.Sprintf("(%s == %s)", a, b)
		case token.NEQ:
			return fmt.Sprintf("(%s != %s)", a, b)
		case token.LAND:
			return fmt.Sprintf("(%s && %s)", a, b)
		case token.LOR:
			return fmt.Sprintf("(%s || %s)", a, b)
		}
	}
	fatal("C45 rewards skeleton (%s): expression shape not understood at %s", t.what, fset.Position(x.Pos()))
	return ""
}

func g6Emit(l *leanFile, name, typ, what string, build func(t *g6Tr) string) {
	t := &g6Tr{vars: map[string]bool{}, what: what}
	body := build(t)
	names := []string{}
	for v := range t.vars {
		names = append(names, v)
	}
	sort.Strings(names)
	l.pf("/-- %s -/\ndef %s", what, name)
	if len(names) > 0 {
		l.pf(" (%s : Nat)", strings.Join(names, " "))
	}
	l.pf(" : %s :=\n  %s\n\n", typ, body)
}

// g6Find walks the body of fn and returns the first statement accepted by pick.
func g6Find(fn *ast.FuncDecl, what string, pick func(ast.Stmt) bool) ast.Stmt {
	var found ast.Stmt
	ast.Inspect(fn.Body, func(n ast.Node) bool {
		if found != nil {
			return false
		}
		if s, ok := n.(ast.Stmt); ok && pick(s) {
			found = s
			return false
		}
		return true
	})
	if found == nil {
		fatal("C45 rewards skeleton: %s not found in %s", what, fn.Name.Name)
	}
	return found
}

func g6IsIdent(x ast.Expr, name string) bool {
	id, ok := x.(*ast.Ident)
	return ok && id.Name == name
}

// assignment `name := rhs` / `name = rhs` / `name += rhs`
func g6Assign(fn *ast.FuncDecl, name string, tok token.Token, nth int) *ast.AssignStmt {
	count := 0
	s := g6Find(fn, fmt.Sprintf("assignment #%d `%s %s`", nth, name, tok), func(s ast.Stmt) bool {
		a, ok := s.(*ast.AssignStmt)
		if !ok || a.Tok != tok || len(a.Lhs) != 1 || len(a.Rhs) != 1 || !g6IsIdent(a.Lhs[0], name) {
			return false
		}
		count++
		return count == nth
	})
	return s.(*ast.AssignStmt)
}

// g6AddAssign translates `x += rhs` as the new value of x.
func g6AddAssign(t *g6Tr, a *ast.AssignStmt, lhsName string) string {
	return fmt.Sprintf("(addW %s %s)", t.v(lhsName), t.expr(a.Rhs[0]))
}

func init() {
	registerGen(func() {
		p := loadPkg("ledger/common")
		calc := findFunc(p, "", "CalculateRewards")
		dist := findFunc(p, "", "distributePoolRewards")
		if calc == nil || dist == nil {
			fatal("C45 rewards skeleton: CalculateRewards / distributePoolRewards not found")
		}
		l := newLean("RewardsInt")
		l.pf("import GV.Model.Rewards\nnamespace GV.Gen.RewardsInt\nopen GV.Model.Rewards\n\n")

		// --- CalculateRewards, second pass
		g6Emit(l, "poolAmount", "Nat", "CalculateRewards: `totalPoolRewards := ...` in the second pass", func(t *g6Tr) string {
			return t.expr(g6Assign(calc, "totalPoolRewards", token.DEFINE, 1).Rhs[0])
		})
		g6Emit(l, "distributedNext", "Nat", "CalculateRewards: `totalDistributed += ...`", func(t *g6Tr) string {
			return g6AddAssign(t, g6Assign(calc, "totalDistributed", token.ADD_ASSIGN, 1), "totalDistributed")
		})
		// the if statement that adjusts poolRewardAmounts[lastPoolID]
		adj := g6Find(calc, "last-pool adjustment", func(s ast.Stmt) bool {
			is, ok := s.(*ast.IfStmt)
			if !ok || is.Else != nil || is.Init != nil || len(is.Body.List) != 1 {
				return false
			}
			a, ok := is.Body.List[0].(*ast.AssignStmt)
			if !ok || len(a.Lhs) != 1 {
				return false
			}
			ix, ok := a.Lhs[0].(*ast.IndexExpr)
			return ok && g6IsIdent(ix.X, "poolRewardAmounts") && g6IsIdent(ix.Index, "lastPoolID")
		}).(*ast.IfStmt)
		g6Emit(l, "lastAdjustCond", "Bool", "CalculateRewards: condition of the last-pool adjustment", func(t *g6Tr) string {
			return t.expr(adj.Cond)
		})
		g6Emit(l, "lastAdjust", "Nat", "CalculateRewards: new value of `poolRewardAmounts[lastPoolID]` (old value `amount`)", func(t *g6Tr) string {
			a := adj.Body.List[0].(*ast.AssignStmt)
			if a.Tok != token.ADD_ASSIGN {
				fatal("C45 rewards skeleton: last-pool adjustment is not `+=` at %s", fset.Position(a.Pos()))
			}
			return fmt.Sprintf("(addW %s %s)", t.v("amount"), t.expr(a.Rhs[0]))
		})

		// --- distributePoolRewards
		guard := g6Find(dist, "pool-cost guard", func(s ast.Stmt) bool {
			is, ok := s.(*ast.IfStmt)
			if !ok || is.Init != nil || len(is.Body.List) != 1 {
				return false
			}
			_, isRet := is.Body.List[0].(*ast.ReturnStmt)
			return isRet
		}).(*ast.IfStmt)
		g6Emit(l, "costGuard", "Bool", "distributePoolRewards: the pool cost uses up all rewards", func(t *g6Tr) string {
			return t.expr(guard.Cond)
		})
		g6Emit(l, "opInitial", "Nat", "distributePoolRewards: `operatorRewards := ...`", func(t *g6Tr) string {
			return t.expr(g6Assign(dist, "operatorRewards", token.DEFINE, 1).Rhs[0])
		})
		g6Emit(l, "opAfterShare", "Nat", "distributePoolRewards: first `operatorRewards += ...` (margin share)", func(t *g6Tr) string {
			return g6AddAssign(t, g6Assign(dist, "operatorRewards", token.ADD_ASSIGN, 1), "operatorRewards")
		})
		g6Emit(l, "opNoStake", "Nat", "distributePoolRewards: `operatorRewards = ...` when the pool has no stake", func(t *g6Tr) string {
			return t.expr(g6Assign(dist, "operatorRewards", token.ASSIGN, 1).Rhs[0])
		})
		g6Emit(l, "stakeholderTotal", "Nat", "distributePoolRewards: `stakeholderRewardsTotal := ...`", func(t *g6Tr) string {
			return t.expr(g6Assign(dist, "stakeholderRewardsTotal", token.DEFINE, 1).Rhs[0])
		})
		g6Emit(l, "delReward", "Nat", "distributePoolRewards: `reward := ...` of one registered delegator", func(t *g6Tr) string {
			return t.expr(g6Assign(dist, "reward", token.DEFINE, 1).Rhs[0])
		})
		g6Emit(l, "assignedNext", "Nat", "distributePoolRewards: `assigned += ...`", func(t *g6Tr) string {
			return g6AddAssign(t, g6Assign(dist, "assigned", token.ADD_ASSIGN, 1), "assigned")
		})
		// loop guard: the if statement whose body is the range over delegatorStake
		loop := g6Find(dist, "stakeholder loop guard", func(s ast.Stmt) bool {
			is, ok := s.(*ast.IfStmt)
			if !ok || is.Init != nil || len(is.Body.List) != 1 {
				return false
			}
			_, isRange := is.Body.List[0].(*ast.RangeStmt)
			return isRange
		}).(*ast.IfStmt)
		g6Emit(l, "loopGuard", "Bool", "distributePoolRewards: guard of the stakeholder loop", func(t *g6Tr) string {
			return t.expr(loop.Cond)
		})
		rem := g6Find(dist, "rounding remainder", func(s ast.Stmt) bool {
			is, ok := s.(*ast.IfStmt)
			if !ok || is.Init != nil || is.Else != nil || len(is.Body.List) != 1 {
				return false
			}
			a, ok := is.Body.List[0].(*ast.AssignStmt)
			if !ok || a.Tok != token.ADD_ASSIGN || len(a.Lhs) != 1 || !g6IsIdent(a.Lhs[0], "operatorRewards") {
				return false
			}
			// the one directly guarded by an if (the margin share is inside an if/else)
			return true
		}).(*ast.IfStmt)
		g6Emit(l, "remainderCond", "Bool", "distributePoolRewards: condition of the rounding remainder", func(t *g6Tr) string {
			return t.expr(rem.Cond)
		})
		g6Emit(l, "opWithRemainder", "Nat", "distributePoolRewards: `operatorRewards += ...` (rounding remainder)", func(t *g6Tr) string {
			return g6AddAssign(t, rem.Body.List[0].(*ast.AssignStmt), "operatorRewards")
		})
		l.pf("end GV.Gen.RewardsInt\n")
	})
}
