package main

import (
	"fmt"
	"go/ast"
	"go/printer"
	"strconv"
	"strings"
)

// g8: KES constants and leaf arithmetic (C39), regenerated from /repo on every run.
func init() {
	registerGen(func() {
		emitConsts("KesConsts", [][3]string{
			{"kes", "SigmaSize", "sigmaSize"},
			{"kes", "PublicKeySize", "publicKeySize"},
			{"kes", "Sum0KesSigSize", "sum0KesSigSize"},
			{"kes", "CardanoKesDepth", "cardanoKesDepth"},
			{"kes", "CardanoKesSignatureSize", "cardanoKesSignatureSize"},
			{"kes", "CardanoKesSecretKeySize", "cardanoKesSecretKeySize"},
			{"kes", "SeedSize", "seedSize"},
			{"kes", "kesSeedSize", "kesSeedSize"},
			{"kes", "kesEd25519KeySize", "kesEd25519KeySize"},
		})
	})
	registerGoLite(goLiteFunc{pkg: "kes", name: "MaxPeriod", leanName: "kesMaxPeriod"})
	registerGoLite(goLiteFunc{pkg: "kes", name: "SignatureSize", leanName: "kesSignatureSize"})
}

// ---- round 2: step order and length checks read off the source (C46, C40)

func g8Render(e ast.Expr) string {
	var sb strings.Builder
	if err := printer.Fprint(&sb, fset, e); err != nil {
		fatal("render: %v", err)
	}
	return sb.String()
}

// g8CallOrder lists, in source order, the methods of the receiver variable called in fn.
func g8CallOrder(pkg, recv, fn string) []string {
	fd := findFunc(loadPkg(pkg), recv, fn)
	if fd == nil || fd.Recv == nil || len(fd.Recv.List[0].Names) == 0 {
		fatal("g8CallOrder: %s.%s.%s not found", pkg, recv, fn)
	}
	rv := fd.Recv.List[0].Names[0].Name
	var out []string
	ast.Inspect(fd.Body, func(n ast.Node) bool {
		if ce, ok := n.(*ast.CallExpr); ok {
			if se, ok := ce.Fun.(*ast.SelectorExpr); ok {
				if id, ok := se.X.(*ast.Ident); ok && id.Name == rv {
					out = append(out, se.Sel.Name)
				}
			}
		}
		return true
	})
	return out
}

// g8LenChecks lists the comparisons `len(x) <op> <const>` of fn in source order.
func g8LenChecks(pkg, recv, fn string) [][3]string {
	fd := findFunc(loadPkg(pkg), recv, fn)
	if fd == nil {
		fatal("g8LenChecks: %s.%s.%s not found", pkg, recv, fn)
	}
	var out [][3]string
	ast.Inspect(fd.Body, func(n ast.Node) bool {
		be, ok := n.(*ast.BinaryExpr)
		if !ok {
			return true
		}
		ce, ok := be.X.(*ast.CallExpr)
		if !ok {
			return true
		}
		if id, ok := ce.Fun.(*ast.Ident); !ok || id.Name != "len" || len(ce.Args) != 1 {
			return true
		}
		out = append(out, [3]string{g8Render(ce.Args[0]), be.Op.String(), g8Render(be.Y)})
		return true
	})
	return out
}

// g8FieldLiteral finds `field: <literal>` inside the composite literal returned by fn.
func g8FieldLiteral(pkg, fn, field string) string {
	fd := findFunc(loadPkg(pkg), "", fn)
	if fd == nil {
		fatal("g8FieldLiteral: %s.%s not found", pkg, fn)
	}
	val := ""
	ast.Inspect(fd.Body, func(n ast.Node) bool {
		if kv, ok := n.(*ast.KeyValueExpr); ok {
			if id, ok := kv.Key.(*ast.Ident); ok && id.Name == field {
				val = g8Render(kv.Value)
			}
		}
		return true
	})
	if val == "" {
		fatal("g8FieldLiteral: %s.%s has no field %s", pkg, fn, field)
	}
	return val
}

// g8Conds lists the rendered conditions of the if statements of fn in source order.
func g8Conds(pkg, recv, fn string) []string {
	fd := findFunc(loadPkg(pkg), recv, fn)
	if fd == nil {
		fatal("g8Conds: %s.%s.%s not found", pkg, recv, fn)
	}
	var out []string
	ast.Inspect(fd.Body, func(n ast.Node) bool {
		if is, ok := n.(*ast.IfStmt); ok {
			c := strings.Join(strings.Fields(g8Render(is.Cond)), " ")
			if c == "verifEnabled" { // hook call sites are not part of the model
				return false
			}
			out = append(out, c)
		}
		return true
	})
	return out
}

// g8Calls lists, in source order, the plain (unqualified) functions called in fn.
func g8Calls(pkg, recv, fn string) []string {
	fd := findFunc(loadPkg(pkg), recv, fn)
	if fd == nil {
		fatal("g8Calls: %s.%s.%s not found", pkg, recv, fn)
	}
	var out []string
	ast.Inspect(fd.Body, func(n ast.Node) bool {
		if ce, ok := n.(*ast.CallExpr); ok {
			if id, ok := ce.Fun.(*ast.Ident); ok && id.Name != "verifTrace" && id.Name != "len" && id.Name != "make" && id.Name != "append" && id.Name != "copy" {
				out = append(out, id.Name)
			}
		}
		return true
	})
	return out
}

// g8TypeSwitch renders the first type switch of fn: per case the listed types and the body
// statements (default clause: type "default"), multi-line statements collapsed.
func g8TypeSwitch(pkg, recv, fn string) [][2]string {
	fd := findFunc(loadPkg(pkg), recv, fn)
	if fd == nil {
		fatal("g8TypeSwitch: %s.%s.%s not found", pkg, recv, fn)
	}
	var ts *ast.TypeSwitchStmt
	ast.Inspect(fd.Body, func(n ast.Node) bool {
		if t, ok := n.(*ast.TypeSwitchStmt); ok && ts == nil {
			ts = t
			return false
		}
		return ts == nil
	})
	if ts == nil {
		fatal("g8TypeSwitch: %s.%s has no type switch", pkg, fn)
	}
	var out [][2]string
	for _, st := range ts.Body.List {
		cc := st.(*ast.CaseClause)
		var tys []string
		for _, t := range cc.List {
			tys = append(tys, g8Render(t))
		}
		ty := strings.Join(tys, ",")
		if cc.List == nil {
			ty = "default"
		}
		var body []string
		for _, b := range cc.Body {
			if ty == "default" {
				body = append(body, "...")
				break
			}
			var sb strings.Builder
			if err := printer.Fprint(&sb, fset, b); err != nil {
				fatal("render: %v", err)
			}
			body = append(body, strings.Join(strings.Fields(sb.String()), " "))
		}
		out = append(out, [2]string{ty, strings.Join(body, "; ")})
	}
	return out
}

func g8LeanPairs(xs [][2]string) string {
	q := make([]string, len(xs))
	for i, x := range xs {
		q[i] = fmt.Sprintf("(%s, %s)", strconv.Quote(x[0]), strconv.Quote(x[1]))
	}
	return "[" + strings.Join(q, ",\n    ") + "]"
}

func g8LeanStrList(xs []string) string {
	q := make([]string, len(xs))
	for i, x := range xs {
		q[i] = strconv.Quote(x)
	}
	return "[" + strings.Join(q, ", ") + "]"
}

func g8LeanTriples(xs [][3]string) string {
	q := make([]string, len(xs))
	for i, x := range xs {
		q[i] = fmt.Sprintf("(%s, %s, %s)", strconv.Quote(x[0]), strconv.Quote(x[1]), strconv.Quote(x[2]))
	}
	return "[" + strings.Join(q, ", ") + "]"
}

func init() {
	registerGen(func() {
		l := newLean("DmqAuthFacts")
		l.pf("namespace GV.Gen.DmqAuthFacts\n")
		l.pf("/-- methods of the authenticator called by verifyMessageInternal, in source order -/\n")
		l.pf("def steps : List String := %s\n", g8LeanStrList(g8CallOrder("protocol/common", "MessageAuthenticator", "verifyMessageInternal")))
		for _, fn := range []string{"verifyMessageID", "verifyOperationalCertificate", "verifyKESSignature"} {
			l.pf("def %s_lens : List (String × String × String) := %s\n", fn, g8LeanTriples(g8LenChecks("protocol/common", "MessageAuthenticator", fn)))
		}
		l.pf("def rotationConds : List String := %s\n", g8LeanStrList(g8Conds("protocol/common", "MessageAuthenticator", "verifyKESPeriodRotation")))
		l.pf("def internalConds : List String := %s\n", g8LeanStrList(g8Conds("protocol/common", "MessageAuthenticator", "verifyMessageInternal")))
		l.pf("def slotsPerKesPeriod : String := %s\n", strconv.Quote(g8FieldLiteral("protocol/common", "NewMessageAuthenticator", "slotsPerKesPeriod")))
		l.pf("end GV.Gen.DmqAuthFacts\n")

		h := newLean("HeaderFacts")
		h.pf("namespace GV.Gen.HeaderFacts\n")
		h.pf("/-- the checks ValidateHeader runs, in source order -/\n")
		h.pf("def checks : List String := %s\n", g8LeanStrList(g8CallOrder("consensus", "HeaderValidator", "ValidateHeader")))
		for _, fn := range []string{"verifyCertifiedVRF", "validateKESSignature", "validateOpCertSignature", "validateVRFKeyRegistration"} {
			h.pf("def %s_lens : List (String × String × String) := %s\n", fn, g8LeanTriples(g8LenChecks("consensus", "HeaderValidator", fn)))
		}
		h.pf("def kesPeriodConds : List String := %s\n", g8LeanStrList(g8Conds("consensus", "HeaderValidator", "validateKESPeriod")))
		h.pf("def slotConds : List String := %s\n", g8LeanStrList(g8Conds("consensus", "HeaderValidator", "validateSlotOrdering")))
		h.pf("def blockNoConds : List String := %s\n", g8LeanStrList(g8Conds("consensus", "HeaderValidator", "validateBlockNumber")))
		h.pf("def prevHashConds : List String := %s\n", g8LeanStrList(g8Conds("consensus", "HeaderValidator", "validatePrevHash")))
		h.pf("def kesComponentsConds : List String := %s\n", g8LeanStrList(g8Conds("ledger", "", "VerifyKesComponents")))
		h.pf("/-- the era switch of ledger.ExtractKesFields: per header type, what is returned -/\n")
		h.pf("def extractKesFields : List (String × String) :=\n    %s\n", g8LeanPairs(g8TypeSwitch("ledger", "", "ExtractKesFields")))
		h.pf("/-- the era switch of ledger.VerifyBlock: per header type, where the leader VRF comes from -/\n")
		h.pf("def verifyBlockVrfSwitch : List (String × String) :=\n    %s\n", g8LeanPairs(g8TypeSwitch("ledger", "", "VerifyBlock")))
		h.pf("def buildHeader_lens : List (String × String × String) := %s\n", g8LeanTriples(g8LenChecks("consensus", "BlockBuilder", "BuildHeader")))
		h.pf("end GV.Gen.HeaderFacts\n")

		k := newLean("KesFacts")
		k.pf("namespace GV.Gen.KesFacts\n")
		k.pf("/-- the conditions of the if statements of the KES functions, in source order -/\n")
		for _, f := range [][3]string{{"", "Sign", "signConds"}, {"", "signInternal", "signInternalConds"},
			{"", "Update", "updateConds"}, {"", "updateInternal", "updateInternalConds"},
			{"SumXKesSig", "Verify", "verifyConds"}, {"", "NewSumKesFromBytes", "parseConds"},
			{"", "keyGenInternal", "keyGenInternalConds"}, {"", "secretKeySize", "secretKeySizeConds"}} {
			k.pf("def %s : List String := %s\n", f[2], g8LeanStrList(g8Conds("kes", f[0], f[1])))
		}
		k.pf("end GV.Gen.KesFacts\n")

		w := newLean("WitnessFacts")
		w.pf("namespace GV.Gen.WitnessFacts\n")
		w.pf("def signaturesCalls : List String := %s\n", g8LeanStrList(g8Calls("ledger/common", "", "UtxoValidateSignatures")))
		w.pf("def verifyVKeySignature_lens : List (String × String × String) := %s\n", g8LeanTriples(g8LenChecks("ledger/common", "", "VerifyVKeySignature")))
		w.pf("def bootstrap_lens : List (String × String × String) := %s\n", g8LeanTriples(g8LenChecks("ledger/common", "", "ValidateBootstrapWitnesses")))
		w.pf("def byronRoot_lens : List (String × String × String) := %s\n", g8LeanTriples(g8LenChecks("ledger/common", "", "computeByronAddressRoot")))
		w.pf("def collateral_lens : List (String × String × String) := %s\n", g8LeanTriples(g8LenChecks("ledger/common", "", "ValidateCollateralVKeyWitnesses")))
		w.pf("def required_lens : List (String × String × String) := %s\n", g8LeanTriples(g8LenChecks("ledger/common", "", "ValidateRequiredVKeyWitnesses")))
		w.pf("def inputConds : List String := %s\n", g8LeanStrList(g8Conds("ledger/common", "", "ValidateInputVKeyWitnesses")))
		w.pf("def collateralConds : List String := %s\n", g8LeanStrList(g8Conds("ledger/common", "", "ValidateCollateralVKeyWitnesses")))
		w.pf("end GV.Gen.WitnessFacts\n")

		v := newLean("VrfFacts")
		v.pf("namespace GV.Gen.VrfFacts\n")
		v.pf("def verifyAndHashConds : List String := %s\n", g8LeanStrList(g8Conds("vrf", "", "VerifyAndHash")))
		v.pf("def verifyConds : List String := %s\n", g8LeanStrList(g8Conds("vrf", "", "verify")))
		v.pf("def verifyCalls : List String := %s\n", g8LeanStrList(g8Calls("vrf", "", "verify")))
		v.pf("def proveCalls : List String := %s\n", g8LeanStrList(g8Calls("vrf", "", "Prove")))
		v.pf("def decodeConds : List String := %s\n", g8LeanStrList(g8Conds("vrf", "", "decodeProofArrays")))
		v.pf("end GV.Gen.VrfFacts\n")

		emitConsts("VrfConsts", [][3]string{
			{"vrf", "ProofSize", "proofSize"},
			{"vrf", "OutputSize", "outputSize"},
			{"vrf", "PublicKeySize", "publicKeySize"},
			{"vrf", "SeedSize", "seedSize"},
			{"vrf", "Suite", "suite"},
		})
	})
}
