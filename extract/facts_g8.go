package main

// g8: KES constants and leaf arithmetic (C39), regenerated from /repo on every run.
func init() {
	registerGen(func() {
		emitConsts("KesConsts", [][3]string{
			{"kes", "SigmaSize", "sigmaSize"},
			{"kes", "PublicKeySize", "publicKeySize"},
			{"kes", "Sum0KesSigSize", "sum0KesSigSize"},
			{"kes", "CardanoKesDepth", "cardanoKesDepth"},
			{"kes", "CardanoKesSignatureSize", "cardanoKesSignatureSize"},
			{"kes", "CardanoKesSecretKeySize", "cardanoKesSecretKeySize"},
			{"kes", "SeedSize", "seedSize"},
			{"kes", "kesSeedSize", "kesSeedSize"},
			{"kes", "kesEd25519KeySize", "kesEd25519KeySize"},
		})
	})
	registerGoLite(goLiteFunc{pkg: "kes", name: "MaxPeriod", leanName: "kesMaxPeriod"})
	registerGoLite(goLiteFunc{pkg: "kes", name: "SignatureSize", leanName: "kesSignatureSize"})
}
