package main

// g4 (C09/C10/C13): muxer segment-header helpers translated from the source on every run.
func init() {
	segFields := map[string]string{"ProtocolId": "uint16"}
	registerGoLite(goLiteFunc{pkg: "muxer", recv: "SegmentHeader", name: "IsRequest", leanName: "segIsRequest", fields: segFields})
	registerGoLite(goLiteFunc{pkg: "muxer", recv: "SegmentHeader", name: "IsResponse", leanName: "segIsResponse", fields: segFields})
	registerGoLite(goLiteFunc{pkg: "muxer", recv: "SegmentHeader", name: "GetProtocolId", leanName: "segGetProtocolId", fields: segFields})
}
