package main

// g4 (C09/C10/C13): muxer segment-header helpers translated from the source on every run.
func init() {
	registerGen(func() {
		emitConsts("LimitsG4", [][3]string{
			{"protocol/chainsync", "MaxPendingMessageBytes", "chainsyncMaxPendingMessageBytes"},
			{"protocol/blockfetch", "IdleMaxPendingMessageBytes", "blockfetchIdleMaxPendingMessageBytes"},
			{"protocol/blockfetch", "BusyMaxPendingMessageBytes", "blockfetchBusyMaxPendingMessageBytes"},
			{"protocol/blockfetch", "StreamingMaxPendingMessageBytes", "blockfetchStreamingMaxPendingMessageBytes"},
			{"protocol", "DefaultRecvQueueSize", "defaultRecvQueueSize"},
		})
	})
	segFields := map[string]string{"ProtocolId": "uint16"}
	registerGoLite(goLiteFunc{pkg: "muxer", recv: "SegmentHeader", name: "IsRequest", leanName: "segIsRequest", fields: segFields})
	registerGoLite(goLiteFunc{pkg: "muxer", recv: "SegmentHeader", name: "IsResponse", leanName: "segIsResponse", fields: segFields})
	registerGoLite(goLiteFunc{pkg: "muxer", recv: "SegmentHeader", name: "GetProtocolId", leanName: "segGetProtocolId", fields: segFields})
}
