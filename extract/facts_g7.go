package main

// Facts for builder g7's properties (C35 is registered in facts_core.go; C41 here).

import (
	"go/ast"
	"go/printer"
	"go/token"
	"sort"
	"strconv"
	"strings"
)

// flattenStructParam rewrites, in the parsed AST, a parameter `p S` of struct
// type S (all fields of one supported integer type) into one parameter per
// field named p_<Field>, and every selector p.<Field> in the body into that
// identifier, so that the GoLite translator (which has no struct values) can
// translate the function. The struct's field list is read from the source.
func flattenStructParam(pkg, recv, fn, param string) {
	p := loadPkg(pkg)
	fd := findFunc(p, recv, fn)
	if fd == nil {
		fatal("flattenStructParam: %s.%s not found", pkg, fn)
	}
	var newList []*ast.Field
	found := false
	for _, fl := range fd.Type.Params.List {
		id, isIdent := fl.Type.(*ast.Ident)
		if !isIdent || len(fl.Names) != 1 || fl.Names[0].Name != param {
			newList = append(newList, fl)
			continue
		}
		st := g7FindStruct(p, id.Name)
		if st == nil {
			fatal("flattenStructParam: struct %s not found", id.Name)
		}
		for _, sf := range st.Fields.List {
			ft, ok := sf.Type.(*ast.Ident)
			if !ok {
				fatal("flattenStructParam: field type of %s not an identifier", id.Name)
			}
			if _, ok := parseGoType(ft.Name); !ok {
				fatal("flattenStructParam: unsupported field type %s", ft.Name)
			}
			for _, n := range sf.Names {
				newList = append(newList, &ast.Field{
					Names: []*ast.Ident{ast.NewIdent(param + "_" + n.Name)},
					Type:  ast.NewIdent(ft.Name),
				})
			}
		}
		found = true
	}
	if !found {
		fatal("flattenStructParam: parameter %s of %s not found", param, fn)
	}
	fd.Type.Params.List = newList
	rewriteSelectors(fd.Body, param)
}

func g7FindStruct(p *pkgInfo, name string) *ast.StructType {
	for _, f := range p.files {
		for _, d := range f.Decls {
			gd, ok := d.(*ast.GenDecl)
			if !ok || gd.Tok != token.TYPE {
				continue
			}
			for _, s := range gd.Specs {
				ts := s.(*ast.TypeSpec)
				if ts.Name.Name == name {
					if st, ok := ts.Type.(*ast.StructType); ok {
						return st
					}
				}
			}
		}
	}
	return nil
}

// rewriteSelectors replaces `param.F` by the identifier `param_F` everywhere below n.
func rewriteSelectors(n ast.Node, param string) {
	repl := func(e ast.Expr) ast.Expr {
		if se, ok := e.(*ast.SelectorExpr); ok {
			if id, ok := se.X.(*ast.Ident); ok && id.Name == param {
				ni := ast.NewIdent(param + "_" + se.Sel.Name)
				ni.NamePos = se.Pos()
				return ni
			}
		}
		return e
	}
	ast.Inspect(n, func(x ast.Node) bool {
		switch v := x.(type) {
		case *ast.BinaryExpr:
			v.X, v.Y = repl(v.X), repl(v.Y)
		case *ast.UnaryExpr:
			v.X = repl(v.X)
		case *ast.ParenExpr:
			v.X = repl(v.X)
		case *ast.ReturnStmt:
			for i := range v.Results {
				v.Results[i] = repl(v.Results[i])
			}
		case *ast.AssignStmt:
			for i := range v.Rhs {
				v.Rhs[i] = repl(v.Rhs[i])
			}
		case *ast.IfStmt:
			v.Cond = repl(v.Cond)
		case *ast.CallExpr:
			for i := range v.Args {
				v.Args[i] = repl(v.Args[i])
			}
		}
		return true
	})
}

func init() {
	// C41: the routing predicate of chain selection
	registerGen(func() {
		flattenStructParam("consensus", "PraosChainSelector", "IsDeepFork", "fork")
	})
	registerGoLite(goLiteFunc{pkg: "consensus", recv: "PraosChainSelector", name: "IsDeepFork", leanName: "isDeepFork",
		fields: map[string]string{"SecurityParam": "uint64"}})
}

// ---------------------------------------------------------------------------
// Source-shape ties (round 2).
//
// srcStmts renders the top-level statements of a function body (go/printer, no
// comments, whitespace collapsed). The Lean side states the list it was modelled
// from; a one-token edit of the Go function breaks that obligation.
func srcStmts(pkg, recv, fn string) []string {
	p := loadPkg(pkg)
	fd := findFunc(p, recv, fn)
	if fd == nil || fd.Body == nil {
		fatal("srcStmts: %s %s.%s not found", pkg, recv, fn)
	}
	out := []string{}
	for _, st := range fd.Body.List {
		out = append(out, renderNode(st))
	}
	return out
}

func renderNode(n ast.Node) string {
	var sb strings.Builder
	if err := (&printer.Config{Mode: printer.RawFormat}).Fprint(&sb, token.NewFileSet(), n); err != nil {
		fatal("render: %v", err)
	}
	return strings.Join(strings.Fields(sb.String()), " ")
}

func leanStrList(xs []string) string {
	q := make([]string, len(xs))
	for i, x := range xs {
		q[i] = strconv.Quote(x)
	}
	return "[\n  " + strings.Join(q, ",\n  ") + "]"
}

// eraLadders extracts, from DetermineBlockType, for each header-body length case the ordered
// rungs `case inProtocolRange(protoMajor, <pkg>.Min…, <pkg>.Max…): return <BlockType…>`.
// Anything else in a rung (a literal, an arithmetic expression) is refused.
func eraLadders() map[string][][3]string {
	p := loadPkg("ledger")
	fd := findFunc(p, "", "DetermineBlockType")
	if fd == nil {
		fatal("DetermineBlockType not found")
	}
	res := map[string][][3]string{}
	var outer *ast.SwitchStmt
	ast.Inspect(fd.Body, func(n ast.Node) bool {
		if sw, ok := n.(*ast.SwitchStmt); ok && outer == nil {
			if id, ok := sw.Tag.(*ast.Ident); ok && id.Name == "lenBody" {
				outer = sw
				return false
			}
		}
		return true
	})
	if outer == nil {
		fatal("DetermineBlockType: switch lenBody not found")
	}
	sel := func(e ast.Expr) string {
		s, ok := e.(*ast.SelectorExpr)
		if !ok {
			fatal("DetermineBlockType: rung bound is not a package constant at %s", fset.Position(e.Pos()))
		}
		id, ok := s.X.(*ast.Ident)
		if !ok {
			fatal("DetermineBlockType: unsupported rung bound")
		}
		return id.Name + "." + s.Sel.Name
	}
	for _, cc := range outer.Body.List {
		c := cc.(*ast.CaseClause)
		if c.List == nil {
			continue // default: error
		}
		if len(c.List) != 1 {
			fatal("DetermineBlockType: case with several lengths")
		}
		key, ok := c.List[0].(*ast.Ident)
		if !ok {
			fatal("DetermineBlockType: length case is not a named constant")
		}
		var inner *ast.SwitchStmt
		for _, st := range c.Body {
			if sw, ok := st.(*ast.SwitchStmt); ok && sw.Tag == nil {
				if inner != nil {
					fatal("DetermineBlockType: two ladders in one case")
				}
				inner = sw
			}
		}
		if inner == nil {
			fatal("DetermineBlockType: no ladder in case %s", key.Name)
		}
		rungs := [][3]string{}
		for _, rc := range inner.Body.List {
			r := rc.(*ast.CaseClause)
			if r.List == nil {
				continue
			}
			if len(r.List) != 1 {
				fatal("DetermineBlockType: rung with several conditions")
			}
			call, ok := r.List[0].(*ast.CallExpr)
			if !ok {
				fatal("DetermineBlockType: rung is not a call")
			}
			fn, ok := call.Fun.(*ast.Ident)
			if !ok || fn.Name != "inProtocolRange" || len(call.Args) != 3 {
				fatal("DetermineBlockType: rung is not inProtocolRange(protoMajor, min, max)")
			}
			if a0, ok := call.Args[0].(*ast.Ident); !ok || a0.Name != "protoMajor" {
				fatal("DetermineBlockType: rung does not test protoMajor")
			}
			if len(r.Body) != 1 {
				fatal("DetermineBlockType: rung body is not a single return")
			}
			ret, ok := r.Body[0].(*ast.ReturnStmt)
			if !ok || len(ret.Results) != 2 {
				fatal("DetermineBlockType: rung body is not `return T, nil`")
			}
			bt, ok := ret.Results[0].(*ast.Ident)
			if !ok {
				fatal("DetermineBlockType: rung does not return a named block type")
			}
			rungs = append(rungs, [3]string{sel(call.Args[1]), sel(call.Args[2]), bt.Name})
		}
		res[key.Name] = rungs
	}
	return res
}

func init() {
	registerGen(func() {
		l := newLean("EraLadders")
		l.pf("namespace GV.Gen.EraLadders\n")
		lad := eraLadders()
		keys := []string{}
		for k := range lad {
			keys = append(keys, k)
		}
		sort.Strings(keys)
		l.pf("/-- header-body length constants that have a ladder, sorted -/\ndef lengths : List String := %s\n", leanStrList(keys))
		for _, k := range keys {
			l.pf("/-- rungs (min constant, max constant, block type) of `case %s`, in source order -/\ndef %s : List (String × String × String) := [", k, k)
			for i, r := range lad[k] {
				if i > 0 {
					l.pf(",")
				}
				l.pf("\n  (%q, %q, %q)", r[0], r[1], r[2])
			}
			l.pf("]\n")
		}
		l.pf("/-- `inProtocolRange` -/\ndef inProtocolRange : List String := %s\n", leanStrList(srcStmts("ledger", "", "inProtocolRange")))
		l.pf("end GV.Gen.EraLadders\n")
	})
	registerGen(func() {
		l := newLean("SrcG7")
		l.pf("namespace GV.Gen.SrcG7\n")
		for _, f := range [][4]string{
			{"certifiedNatThresholdWithMode", "consensus", "", "CertifiedNatThresholdWithMode"},
			{"isVRFOutputBelowThresholdWithMode", "consensus", "", "IsVRFOutputBelowThresholdWithMode"},
			{"isSlotLeaderFromComponentsWithMode", "consensus", "", "IsSlotLeaderFromComponentsWithMode"},
			{"exactOneMinusFPowerSigma", "consensus", "", "exactOneMinusFPowerSigma"},
			{"exactOneMinusFPowerSigmaThreshold", "consensus", "", "exactOneMinusFPowerSigmaThreshold"},
			{"merkleRoot", "ledger/byron", "", "MerkleRoot"},
			{"merkleNode", "ledger/byron", "", "merkleNode"},
			{"compare", "consensus", "PraosChainSelector", "Compare"},
			{"selectPreferred", "consensus", "PraosChainSelector", "selectPreferred"},
			{"blocksInWindow", "consensus", "WindowedChainTip", "BlocksInWindow"},
			{"windowMetricFor", "consensus", "PraosChainSelector", "windowMetricFor"},
			{"compareDensityMetric", "consensus", "PraosChainSelector", "compareDensityMetric"},
			{"compareWithDensityMetric", "consensus", "PraosChainSelector", "compareWithDensityMetric"},
			{"compareWithDensity", "consensus", "PraosChainSelector", "CompareWithDensity"},
			{"preferredWithDensity", "consensus", "PraosChainSelector", "PreferredWithDensity"},
			{"preferred", "consensus", "PraosChainSelector", "Preferred"},
			{"simpleDensity", "consensus", "SimpleChainTip", "Density"},
			{"windowedDensity", "consensus", "WindowedChainTip", "Density"},
		} {
			l.pf("/-- top-level statements of `%s` (%s) -/\ndef %s : List String := %s\n", f[3], f[1], f[0], leanStrList(srcStmts(f[1], f[2], f[3])))
		}
		l.pf("end GV.Gen.SrcG7\n")
	})
}
