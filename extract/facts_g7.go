package main

// Facts for builder g7's properties (C35 is registered in facts_core.go; C41 here).

import (
	"go/ast"
	"go/token"
)

// flattenStructParam rewrites, in the parsed AST, a parameter `p S` of struct
// type S (all fields of one supported integer type) into one parameter per
// field named p_<Field>, and every selector p.<Field> in the body into that
// identifier, so that the GoLite translator (which has no struct values) can
// translate the function. The struct's field list is read from the source.
func flattenStructParam(pkg, recv, fn, param string) {
	p := loadPkg(pkg)
	fd := findFunc(p, recv, fn)
	if fd == nil {
		fatal("flattenStructParam: %s.%s not found", pkg, fn)
	}
	var newList []*ast.Field
	found := false
	for _, fl := range fd.Type.Params.List {
		id, isIdent := fl.Type.(*ast.Ident)
		if !isIdent || len(fl.Names) != 1 || fl.Names[0].Name != param {
			newList = append(newList, fl)
			continue
		}
		st := g7FindStruct(p, id.Name)
		if st == nil {
			fatal("flattenStructParam: struct %s not found", id.Name)
		}
		for _, sf := range st.Fields.List {
			ft, ok := sf.Type.(*ast.Ident)
			if !ok {
				fatal("flattenStructParam: field type of %s not an identifier", id.Name)
			}
			if _, ok := parseGoType(ft.Name); !ok {
				fatal("flattenStructParam: unsupported field type %s", ft.Name)
			}
			for _, n := range sf.Names {
				newList = append(newList, &ast.Field{
					Names: []*ast.Ident{ast.NewIdent(param + "_" + n.Name)},
					Type:  ast.NewIdent(ft.Name),
				})
			}
		}
		found = true
	}
	if !found {
		fatal("flattenStructParam: parameter %s of %s not found", param, fn)
	}
	fd.Type.Params.List = newList
	rewriteSelectors(fd.Body, param)
}

func g7FindStruct(p *pkgInfo, name string) *ast.StructType {
	for _, f := range p.files {
		for _, d := range f.Decls {
			gd, ok := d.(*ast.GenDecl)
			if !ok || gd.Tok != token.TYPE {
				continue
			}
			for _, s := range gd.Specs {
				ts := s.(*ast.TypeSpec)
				if ts.Name.Name == name {
					if st, ok := ts.Type.(*ast.StructType); ok {
						return st
					}
				}
			}
		}
	}
	return nil
}

// rewriteSelectors replaces `param.F` by the identifier `param_F` everywhere below n.
func rewriteSelectors(n ast.Node, param string) {
	repl := func(e ast.Expr) ast.Expr {
		if se, ok := e.(*ast.SelectorExpr); ok {
			if id, ok := se.X.(*ast.Ident); ok && id.Name == param {
				ni := ast.NewIdent(param + "_" + se.Sel.Name)
				ni.NamePos = se.Pos()
				return ni
			}
		}
		return e
	}
	ast.Inspect(n, func(x ast.Node) bool {
		switch v := x.(type) {
		case *ast.BinaryExpr:
			v.X, v.Y = repl(v.X), repl(v.Y)
		case *ast.UnaryExpr:
			v.X = repl(v.X)
		case *ast.ParenExpr:
			v.X = repl(v.X)
		case *ast.ReturnStmt:
			for i := range v.Results {
				v.Results[i] = repl(v.Results[i])
			}
		case *ast.AssignStmt:
			for i := range v.Rhs {
				v.Rhs[i] = repl(v.Rhs[i])
			}
		case *ast.IfStmt:
			v.Cond = repl(v.Cond)
		case *ast.CallExpr:
			for i := range v.Args {
				v.Args[i] = repl(v.Args[i])
			}
		}
		return true
	})
}

func init() {
	// C41: the routing predicate of chain selection
	registerGen(func() {
		flattenStructParam("consensus", "PraosChainSelector", "IsDeepFork", "fork")
	})
	registerGoLite(goLiteFunc{pkg: "consensus", recv: "PraosChainSelector", name: "IsDeepFork", leanName: "isDeepFork",
		fields: map[string]string{"SecurityParam": "uint64"}})
}
