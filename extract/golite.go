package main

// GoLite → Lean translator; functions are added in golite_funcs.go.
func genGoLite() {
	l := newLean("GoLite")
	l.pf("namespace GV.Gen.GoLite\n")
	for _, f := range goLiteFuncs {
		translateFunc(l, f)
	}
	l.pf("end GV.Gen.GoLite\n")
}

type goLiteFunc struct {
	pkg, recv, name string
	leanName        string
}

var goLiteFuncs = []goLiteFunc{}

func translateFunc(l *leanFile, f goLiteFunc) {
	fatal("GoLite translator not yet implemented for %s", f.name)
}
