package main

// GoLite → Lean translator.
//
// A deliberately tiny subset of Go: functions over integer and boolean
// values with locals, assignments, if/else, early returns, condition-only
// `for` loops (translated to a fuel-indexed recursive definition) and a few
// math/bits intrinsics. Everything is emitted over Lean `Int` with explicit
// wrap-around at the Go type's width, so the generated definition computes
// exactly what the Go function computes (including overflow behaviour).
// Anything outside the subset is a hard error: the translator never guesses.
//
// Result values of type `error` become a Bool "is an error".

import (
	"fmt"
	"go/ast"
	"go/constant"
	"go/token"
	"sort"
	"strings"
)

type goLiteFunc struct {
	pkg, recv, name string
	leanName        string
	fuel            string            // Lean expression used as fuel for loops
	fields          map[string]string // receiver field -> Go type (for methods)
}

var goLiteFuncs = []goLiteFunc{}

func registerGoLite(f goLiteFunc) { goLiteFuncs = append(goLiteFuncs, f) }

const goLitePrelude = `
set_option linter.unusedVariables false
/-- wrap to an unsigned w-bit value -/
def wrapU (w : Nat) (x : Int) : Int := x % (2 ^ w)
/-- wrap to a signed w-bit value (two's complement) -/
def wrapS (w : Nat) (x : Int) : Int := (x + 2 ^ (w - 1)) % (2 ^ w) - 2 ^ (w - 1)
`

func genGoLite() {
	l := newLean("GoLite")
	l.pf("namespace GV.Gen.GoLite\n")
	l.pf("%s\n", goLitePrelude)
	for _, f := range goLiteFuncs {
		t := &glTrans{f: f, p: loadPkg(f.pkg)}
		t.translate(l)
	}
	l.pf("end GV.Gen.GoLite\n")
}

type glType struct {
	kind  string // "u", "s", "bool", "err"
	width int
}

func (t glType) lean() string {
	if t.kind == "bool" || t.kind == "err" {
		return "Bool"
	}
	return "Int"
}

func parseGoType(name string) (glType, bool) {
	switch name {
	case "uint64":
		return glType{"u", 64}, true
	case "uint":
		return glType{"u", 64}, true
	case "uint32":
		return glType{"u", 32}, true
	case "uint16":
		return glType{"u", 16}, true
	case "uint8", "byte":
		return glType{"u", 8}, true
	case "int64", "int":
		return glType{"s", 64}, true
	case "int32":
		return glType{"s", 32}, true
	case "int16":
		return glType{"s", 16}, true
	case "int8":
		return glType{"s", 8}, true
	case "bool":
		return glType{"bool", 0}, true
	case "error":
		return glType{"err", 0}, true
	}
	return glType{}, false
}

type glTrans struct {
	f       goLiteFunc
	p       *pkgInfo
	fd      *ast.FuncDecl
	results []glType
	vars    map[string]glType // in-scope variables
	order   []string          // declaration order of in-scope variables
	aux     []string          // auxiliary loop definitions
	nloop   int
	recv    string
	cenv    *constEnv
}

func (t *glTrans) fail(n ast.Node, format string, a ...any) {
	fatal("GoLite %s.%s at %s: %s", t.f.pkg, t.f.name, fset.Position(n.Pos()), fmt.Sprintf(format, a...))
}

func (t *glTrans) typeOf(e ast.Expr) glType {
	switch x := e.(type) {
	case *ast.Ident:
		if ty, ok := parseGoType(x.Name); ok {
			return ty
		}
		// named types of the package with an integer underlying type
		for _, f := range t.p.files {
			for _, d := range f.Decls {
				gd, ok := d.(*ast.GenDecl)
				if !ok || gd.Tok != token.TYPE {
					continue
				}
				for _, s := range gd.Specs {
					ts := s.(*ast.TypeSpec)
					if ts.Name.Name == x.Name {
						return t.typeOf(ts.Type)
					}
				}
			}
		}
	}
	t.fail(e, "unsupported type")
	return glType{}
}

func (t *glTrans) declare(name string, ty glType) {
	if _, ok := t.vars[name]; !ok {
		t.order = append(t.order, name)
	}
	t.vars[name] = ty
}

func (t *glTrans) translate(l *leanFile) {
	fd := findFunc(t.p, t.f.recv, t.f.name)
	if fd == nil || fd.Body == nil {
		fatal("GoLite: function %s.%s (recv %q) not found", t.f.pkg, t.f.name, t.f.recv)
	}
	t.fd = fd
	t.vars = map[string]glType{}
	t.cenv = &constEnv{p: t.p, memo: map[string]constant.Value{}}
	params := []string{}
	if fd.Recv != nil && len(fd.Recv.List) == 1 && len(fd.Recv.List[0].Names) == 1 {
		t.recv = fd.Recv.List[0].Names[0].Name
		names := []string{}
		for n := range t.f.fields {
			names = append(names, n)
		}
		sort.Strings(names)
		for _, n := range names {
			ty, ok := parseGoType(t.f.fields[n])
			if !ok {
				fatal("GoLite: bad field type %s", t.f.fields[n])
			}
			v := t.recv + "_" + n
			t.declare(v, ty)
			params = append(params, fmt.Sprintf("(%s : %s)", v, ty.lean()))
		}
	}
	for _, fl := range fd.Type.Params.List {
		ty := t.typeOf(fl.Type)
		for _, n := range fl.Names {
			t.declare(n.Name, ty)
			params = append(params, fmt.Sprintf("(%s : %s)", n.Name, ty.lean()))
		}
	}
	if fd.Type.Results == nil {
		t.fail(fd, "function without results")
	}
	rts := []string{}
	for _, fl := range fd.Type.Results.List {
		ty := t.typeOf(fl.Type)
		k := len(fl.Names)
		if k == 0 {
			k = 1
		} else {
			t.fail(fd, "named results unsupported")
		}
		for i := 0; i < k; i++ {
			t.results = append(t.results, ty)
			rts = append(rts, ty.lean())
		}
	}
	body := t.stmts(fd.Body.List, nil, "  ")
	pos := fset.Position(fd.Pos())
	for _, a := range t.aux {
		l.pf("%s\n", a)
	}
	l.pf("/-- translated from %s:%d `%s` -/\n", strings.TrimPrefix(pos.Filename, repoRoot+"/"), pos.Line, t.f.name)
	l.pf("def %s %s : %s :=\n%s\n\n", t.f.leanName, strings.Join(params, " "), strings.Join(rts, " × "), body)
}

// terminates reports whether a statement list always ends in a return.
func terminates(list []ast.Stmt) bool {
	if len(list) == 0 {
		return false
	}
	switch s := list[len(list)-1].(type) {
	case *ast.ReturnStmt:
		return true
	case *ast.IfStmt:
		if s.Else == nil {
			return false
		}
		var el []ast.Stmt
		switch e := s.Else.(type) {
		case *ast.BlockStmt:
			el = e.List
		case *ast.IfStmt:
			el = []ast.Stmt{e}
		}
		return terminates(s.Body.List) && terminates(el)
	case *ast.BlockStmt:
		return terminates(s.List)
	}
	return false
}

func hasReturn(n ast.Node) bool {
	found := false
	ast.Inspect(n, func(x ast.Node) bool {
		switch x.(type) {
		case *ast.ReturnStmt, *ast.BranchStmt:
			found = true
		}
		return !found
	})
	return found
}

// assigned returns the outer-scope variables assigned inside the statements.
func (t *glTrans) assigned(list []ast.Stmt) []string {
	set := map[string]bool{}
	for _, s := range list {
		ast.Inspect(s, func(x ast.Node) bool {
			switch a := x.(type) {
			case *ast.AssignStmt:
				if a.Tok != token.DEFINE {
					for _, lh := range a.Lhs {
						if id, ok := lh.(*ast.Ident); ok {
							if _, ok := t.vars[id.Name]; ok {
								set[id.Name] = true
							}
						}
					}
				}
			case *ast.IncDecStmt:
				if id, ok := a.X.(*ast.Ident); ok {
					if _, ok := t.vars[id.Name]; ok {
						set[id.Name] = true
					}
				}
			}
			return true
		})
	}
	res := []string{}
	for _, n := range t.order {
		if set[n] {
			res = append(res, n)
		}
	}
	return res
}

func tuple(names []string) string {
	if len(names) == 1 {
		return names[0]
	}
	return "(" + strings.Join(names, ", ") + ")"
}

// stmts translates a statement list. `fall` is the list of variables whose
// values form the result when control falls off the end (nil = must return).
func (t *glTrans) stmts(list []ast.Stmt, fall []string, ind string) string {
	if len(list) == 0 {
		if fall == nil {
			fatal("GoLite %s: control reaches end of function without return", t.f.name)
		}
		return ind + tuple(fall)
	}
	s, rest := list[0], list[1:]
	switch x := s.(type) {
	case *ast.ReturnStmt:
		if fall != nil {
			t.fail(x, "return inside a block that must fall through")
		}
		if len(x.Results) != len(t.results) {
			t.fail(x, "return arity")
		}
		parts := []string{}
		for i, r := range x.Results {
			parts = append(parts, t.exprAs(r, t.results[i]))
		}
		return ind + tuple(parts)
	case *ast.DeclStmt:
		gd := x.Decl.(*ast.GenDecl)
		if gd.Tok != token.VAR {
			t.fail(x, "unsupported declaration")
		}
		out := ""
		for _, sp := range gd.Specs {
			vs := sp.(*ast.ValueSpec)
			if vs.Type == nil {
				t.fail(x, "var without type")
			}
			ty := t.typeOf(vs.Type)
			for i, n := range vs.Names {
				val := "0"
				if ty.kind == "bool" {
					val = "false"
				}
				if i < len(vs.Values) {
					val = t.exprAs(vs.Values[i], ty)
				}
				t.declare(n.Name, ty)
				out += fmt.Sprintf("%slet %s : %s := %s\n", ind, n.Name, ty.lean(), val)
			}
		}
		return out + t.stmts(rest, fall, ind)
	case *ast.AssignStmt:
		return t.assign(x, ind) + t.stmts(rest, fall, ind)
	case *ast.IncDecStmt:
		id, ok := x.X.(*ast.Ident)
		if !ok {
			t.fail(x, "unsupported inc/dec target")
		}
		ty := t.vars[id.Name]
		op := "+"
		if x.Tok == token.DEC {
			op = "-"
		}
		return fmt.Sprintf("%slet %s : Int := %s\n", ind, id.Name, wrap(ty, fmt.Sprintf("%s %s 1", id.Name, op))) + t.stmts(rest, fall, ind)
	case *ast.IfStmt:
		if x.Init != nil {
			t.fail(x, "if with init statement")
		}
		cond := t.boolExpr(x.Cond)
		var els []ast.Stmt
		if x.Else != nil {
			switch e := x.Else.(type) {
			case *ast.BlockStmt:
				els = e.List
			case *ast.IfStmt:
				els = []ast.Stmt{e}
			}
		}
		saved := t.snapshot()
		if terminates(x.Body.List) {
			// early return: the rest is the else branch
			a := t.stmts(x.Body.List, nil, ind+"  ")
			t.restore(saved)
			b := t.stmts(append(append([]ast.Stmt{}, els...), rest...), fall, ind+"  ")
			return fmt.Sprintf("%sif %s then\n%s\n%selse\n%s", ind, cond, a, ind, b)
		}
		if hasReturn(x.Body) || (x.Else != nil && hasReturn(x.Else)) {
			t.fail(x, "conditional return in a non-terminating branch")
		}
		asg := t.assigned(append(append([]ast.Stmt{}, x.Body.List...), els...))
		if len(asg) == 0 {
			return t.stmts(rest, fall, ind)
		}
		a := t.stmts(x.Body.List, asg, ind+"    ")
		t.restore(saved)
		b := t.stmts(els, asg, ind+"    ")
		t.restore(saved)
		return fmt.Sprintf("%slet %s := (\n%s  if %s then\n%s\n%s  else\n%s)\n", ind, tuple(asg), ind, cond, a, ind, b) + t.stmts(rest, fall, ind)
	case *ast.ForStmt:
		if x.Init != nil || x.Post != nil {
			// for i := a; cond; post { body }  ==>  init; for cond { body; post }
			pre := []ast.Stmt{}
			if x.Init != nil {
				pre = append(pre, x.Init)
			}
			body := append([]ast.Stmt{}, x.Body.List...)
			if x.Post != nil {
				body = append(body, x.Post)
			}
			loop := &ast.ForStmt{For: x.For, Cond: x.Cond, Body: &ast.BlockStmt{List: body}}
			return t.stmts(append(append(pre, loop), rest...), fall, ind)
		}
		if x.Cond == nil {
			t.fail(x, "infinite loop")
		}
		if hasReturn(x.Body) {
			t.fail(x, "return/break/continue inside loop")
		}
		if t.f.fuel == "" {
			t.fail(x, "loop needs a fuel expression in the registry")
		}
		asg := t.assigned(x.Body.List)
		if len(asg) == 0 {
			t.fail(x, "loop assigns nothing")
		}
		t.nloop++
		name := fmt.Sprintf("%s_loop%d", t.f.leanName, t.nloop)
		all := append([]string{}, t.order...)
		argTypes := []string{}
		for _, v := range all {
			argTypes = append(argTypes, t.vars[v].lean())
		}
		resTypes := []string{}
		for _, v := range asg {
			resTypes = append(resTypes, t.vars[v].lean())
		}
		saved := t.snapshot()
		cond := t.boolExpr(x.Cond)
		body := t.stmts(x.Body.List, asg, "      ")
		t.restore(saved)
		// recursive call with the updated variables
		aux := fmt.Sprintf("def %s : Nat → %s → %s\n", name, strings.Join(argTypes, " → "), strings.Join(resTypes, " × "))
		aux += fmt.Sprintf("  | 0, %s => %s\n", strings.Join(all, ", "), tuple(asg))
		aux += fmt.Sprintf("  | fuel + 1, %s =>\n    if %s then\n      let %s := (\n%s)\n      %s fuel %s\n    else %s\n",
			strings.Join(all, ", "), cond, tuple(asg), body, name, strings.Join(all, " "), tuple(asg))
		t.aux = append(t.aux, aux)
		return fmt.Sprintf("%slet %s := %s (%s) %s\n", ind, tuple(asg), name, t.f.fuel, strings.Join(all, " ")) + t.stmts(rest, fall, ind)
	case *ast.BlockStmt:
		return t.stmts(append(append([]ast.Stmt{}, x.List...), rest...), fall, ind)
	}
	t.fail(s, "unsupported statement %T", s)
	return ""
}

type glSnap struct {
	vars  map[string]glType
	order []string
}

func (t *glTrans) snapshot() glSnap {
	m := map[string]glType{}
	for k, v := range t.vars {
		m[k] = v
	}
	return glSnap{m, append([]string{}, t.order...)}
}
func (t *glTrans) restore(s glSnap) { t.vars = s.vars; t.order = s.order }

func (t *glTrans) assign(x *ast.AssignStmt, ind string) string {
	// intrinsics with two results
	if len(x.Lhs) == 2 && len(x.Rhs) == 1 {
		call, ok := x.Rhs[0].(*ast.CallExpr)
		if !ok {
			t.fail(x, "unsupported multi-assignment")
		}
		sel, ok := call.Fun.(*ast.SelectorExpr)
		if !ok {
			t.fail(x, "unsupported multi-assignment")
		}
		pk, _ := sel.X.(*ast.Ident)
		if pk == nil || pk.Name != "bits" {
			t.fail(x, "unsupported call")
		}
		a, b := x.Lhs[0].(*ast.Ident).Name, x.Lhs[1].(*ast.Ident).Name
		u64 := glType{"u", 64}
		var out string
		switch sel.Sel.Name {
		case "Mul64":
			p := fmt.Sprintf("(%s * %s)", t.exprAs(call.Args[0], u64), t.exprAs(call.Args[1], u64))
			out = fmt.Sprintf("%slet %s : Int := %s / 2 ^ 64\n%slet %s : Int := %s %% 2 ^ 64\n", ind, a, p, ind, b, p)
		case "Add64":
			p := fmt.Sprintf("(%s + %s + %s)", t.exprAs(call.Args[0], u64), t.exprAs(call.Args[1], u64), t.exprAs(call.Args[2], u64))
			out = fmt.Sprintf("%slet %s : Int := %s %% 2 ^ 64\n%slet %s : Int := %s / 2 ^ 64\n", ind, a, p, ind, b, p)
		default:
			t.fail(x, "unsupported bits intrinsic %s", sel.Sel.Name)
		}
		if a != "_" {
			t.declare(a, u64)
		}
		if b != "_" {
			t.declare(b, u64)
		}
		return out
	}
	if len(x.Lhs) != len(x.Rhs) {
		t.fail(x, "unsupported assignment shape")
	}
	out := ""
	for i := range x.Lhs {
		id, ok := x.Lhs[i].(*ast.Ident)
		if !ok {
			t.fail(x, "unsupported assignment target")
		}
		switch x.Tok {
		case token.DEFINE:
			ty, val := t.exprInfer(x.Rhs[i])
			t.declare(id.Name, ty)
			out += fmt.Sprintf("%slet %s : %s := %s\n", ind, id.Name, ty.lean(), val)
		case token.ASSIGN:
			ty, ok := t.vars[id.Name]
			if !ok {
				t.fail(x, "assignment to unknown variable %s", id.Name)
			}
			out += fmt.Sprintf("%slet %s : %s := %s\n", ind, id.Name, ty.lean(), t.exprAs(x.Rhs[i], ty))
		default:
			ops := map[token.Token]token.Token{token.ADD_ASSIGN: token.ADD, token.SUB_ASSIGN: token.SUB, token.MUL_ASSIGN: token.MUL,
				token.QUO_ASSIGN: token.QUO, token.REM_ASSIGN: token.REM, token.SHL_ASSIGN: token.SHL, token.SHR_ASSIGN: token.SHR,
				token.AND_ASSIGN: token.AND, token.OR_ASSIGN: token.OR, token.XOR_ASSIGN: token.XOR}
			op, ok := ops[x.Tok]
			if !ok {
				t.fail(x, "unsupported assignment operator")
			}
			ty := t.vars[id.Name]
			be := &ast.BinaryExpr{X: id, Op: op, Y: x.Rhs[i], OpPos: x.Pos()}
			out += fmt.Sprintf("%slet %s : %s := %s\n", ind, id.Name, ty.lean(), t.exprAs(be, ty))
		}
	}
	return out
}

func wrap(ty glType, e string) string {
	switch ty.kind {
	case "u":
		return fmt.Sprintf("wrapU %d (%s)", ty.width, e)
	case "s":
		return fmt.Sprintf("wrapS %d (%s)", ty.width, e)
	}
	return e
}

// isUntypedConst: literal or package constant without explicit type.
func (t *glTrans) constVal(e ast.Expr) (string, bool) {
	switch x := e.(type) {
	case *ast.BasicLit:
		if x.Kind == token.INT || x.Kind == token.CHAR {
			v := constant.MakeFromLiteral(x.Value, x.Kind, 0)
			return v.ExactString(), true
		}
	case *ast.ParenExpr:
		return t.constVal(x.X)
	case *ast.Ident:
		if _, ok := t.vars[x.Name]; ok {
			return "", false
		}
		if x.Name == "true" || x.Name == "false" || x.Name == "nil" {
			return "", false
		}
		v := t.cenv.lookup(x.Name)
		if v.Kind() == constant.Int {
			return v.ExactString(), true
		}
	case *ast.BinaryExpr:
		a, ok1 := t.constVal(x.X)
		b, ok2 := t.constVal(x.Y)
		if ok1 && ok2 {
			va, vb := constant.MakeFromLiteral(a, token.INT, 0), constant.MakeFromLiteral(b, token.INT, 0)
			switch x.Op {
			case token.SHL, token.SHR:
				s, _ := constant.Uint64Val(vb)
				return constant.Shift(va, x.Op, uint(s)).ExactString(), true
			case token.QUO:
				return constant.BinaryOp(va, token.QUO_ASSIGN, vb).ExactString(), true
			case token.ADD, token.SUB, token.MUL, token.REM, token.AND, token.OR, token.XOR:
				return constant.BinaryOp(va, x.Op, vb).ExactString(), true
			}
		}
	case *ast.SelectorExpr:
		if id, ok := x.X.(*ast.Ident); ok && id.Name == "math" {
			switch x.Sel.Name {
			case "MaxUint64":
				return "18446744073709551615", true
			case "MaxInt64":
				return "9223372036854775807", true
			case "MinInt64":
				return "-9223372036854775808", true
			case "MaxUint32":
				return "4294967295", true
			case "MaxUint16":
				return "65535", true
			case "MaxInt":
				return "9223372036854775807", true
			}
		}
	}
	return "", false
}

func lit(s string) string {
	if strings.HasPrefix(s, "-") {
		return "(" + s + ")"
	}
	return s
}

// exprInfer translates an expression and infers its Go type (untyped
// constants default to int).
func (t *glTrans) exprInfer(e ast.Expr) (glType, string) {
	if c, ok := t.constVal(e); ok {
		return glType{"s", 64}, lit(c)
	}
	switch x := e.(type) {
	case *ast.ParenExpr:
		ty, s := t.exprInfer(x.X)
		return ty, "(" + s + ")"
	case *ast.Ident:
		if x.Name == "true" || x.Name == "false" {
			return glType{"bool", 0}, x.Name
		}
		if ty, ok := t.vars[x.Name]; ok {
			return ty, x.Name
		}
		t.fail(e, "unknown identifier %s", x.Name)
	case *ast.SelectorExpr:
		if id, ok := x.X.(*ast.Ident); ok && id.Name == t.recv && t.recv != "" {
			v := t.recv + "_" + x.Sel.Name
			if ty, ok := t.vars[v]; ok {
				return ty, v
			}
			t.fail(e, "receiver field %s not in registry", x.Sel.Name)
		}
		t.fail(e, "unsupported selector")
	case *ast.CallExpr:
		// conversion T(x)
		if id, ok := x.Fun.(*ast.Ident); ok && len(x.Args) == 1 {
			if _, isVar := t.vars[id.Name]; !isVar {
				ty := t.typeOf(id)
				if c, ok := t.constVal(x.Args[0]); ok {
					return ty, wrap(ty, lit(c))
				}
				_, s := t.exprInfer(x.Args[0])
				return ty, wrap(ty, s)
			}
		}
		t.fail(e, "unsupported call")
	case *ast.UnaryExpr:
		switch x.Op {
		case token.NOT:
			return glType{"bool", 0}, "(!" + t.boolExpr(x.X) + ")"
		case token.SUB:
			ty, s := t.exprInfer(x.X)
			return ty, wrap(ty, "- "+s)
		}
		t.fail(e, "unsupported unary operator")
	case *ast.BinaryExpr:
		switch x.Op {
		case token.LAND, token.LOR, token.EQL, token.NEQ, token.LSS, token.LEQ, token.GTR, token.GEQ:
			return glType{"bool", 0}, t.boolExpr(e)
		}
		// shifts: result type is the left operand's
		if x.Op == token.SHL || x.Op == token.SHR {
			ty, a := t.exprInfer(x.X)
			_, b := t.exprInfer(x.Y)
			if x.Op == token.SHL {
				return ty, wrap(ty, fmt.Sprintf("%s * 2 ^ (%s).toNat", a, b))
			}
			if ty.kind == "s" {
				return ty, fmt.Sprintf("(%s / 2 ^ (%s).toNat)", a, b) // Int./ floors, as Go's arithmetic shift does
			}
			return ty, fmt.Sprintf("(%s / 2 ^ (%s).toNat)", a, b)
		}
		var ty glType
		var a, b string
		ca, okA := t.constVal(x.X)
		cb, okB := t.constVal(x.Y)
		switch {
		case okA && !okB:
			ty, b = t.exprInfer(x.Y)
			a = lit(ca)
		case okB && !okA:
			ty, a = t.exprInfer(x.X)
			b = lit(cb)
		default:
			var tb glType
			ty, a = t.exprInfer(x.X)
			tb, b = t.exprInfer(x.Y)
			if ty != tb {
				t.fail(e, "operand types differ")
			}
		}
		if ty.kind != "u" && ty.kind != "s" {
			t.fail(e, "arithmetic on non-integer")
		}
		switch x.Op {
		case token.ADD:
			return ty, wrap(ty, fmt.Sprintf("%s + %s", a, b))
		case token.SUB:
			return ty, wrap(ty, fmt.Sprintf("%s - %s", a, b))
		case token.MUL:
			return ty, wrap(ty, fmt.Sprintf("%s * %s", a, b))
		case token.QUO:
			if ty.kind == "u" {
				return ty, fmt.Sprintf("(%s / %s)", a, b)
			}
			return ty, wrap(ty, fmt.Sprintf("Int.tdiv %s %s", paren(a), paren(b)))
		case token.REM:
			if ty.kind == "u" {
				return ty, fmt.Sprintf("(%s %% %s)", a, b)
			}
			return ty, fmt.Sprintf("(Int.tmod %s %s)", paren(a), paren(b))
		case token.AND:
			if ty.kind == "u" {
				return ty, fmt.Sprintf("((%s : Int).toNat &&& (%s : Int).toNat : Nat)", a, b)
			}
		case token.OR:
			if ty.kind == "u" {
				return ty, fmt.Sprintf("((%s : Int).toNat ||| (%s : Int).toNat : Nat)", a, b)
			}
		case token.XOR:
			if ty.kind == "u" {
				return ty, fmt.Sprintf("((%s : Int).toNat ^^^ (%s : Int).toNat : Nat)", a, b)
			}
		}
		t.fail(e, "unsupported binary operator %s", x.Op)
	}
	t.fail(e, "unsupported expression %T", e)
	return glType{}, ""
}

func paren(s string) string {
	if strings.ContainsAny(s, " ") && !strings.HasPrefix(s, "(") {
		return "(" + s + ")"
	}
	return s
}

// exprAs translates an expression in a context that expects type ty.
func (t *glTrans) exprAs(e ast.Expr, ty glType) string {
	if ty.kind == "err" {
		if id, ok := e.(*ast.Ident); ok && id.Name == "nil" {
			return "false"
		}
		switch e.(type) {
		case *ast.CallExpr, *ast.CompositeLit, *ast.UnaryExpr:
			return "true" // fmt.Errorf(...), errors.New(...), SomeError{...}
		}
		t.fail(e, "unsupported error value")
	}
	if ty.kind == "bool" {
		return t.boolExpr(e)
	}
	if c, ok := t.constVal(e); ok {
		return lit(c)
	}
	got, s := t.exprInfer(e)
	if got != ty {
		t.fail(e, "expression of type %v where %v expected", got, ty)
	}
	return s
}

func (t *glTrans) boolExpr(e ast.Expr) string {
	switch x := e.(type) {
	case *ast.ParenExpr:
		return "(" + t.boolExpr(x.X) + ")"
	case *ast.Ident:
		if x.Name == "true" || x.Name == "false" {
			return x.Name
		}
		if ty, ok := t.vars[x.Name]; ok && ty.kind == "bool" {
			return x.Name
		}
		t.fail(e, "non-boolean identifier in condition")
	case *ast.UnaryExpr:
		if x.Op == token.NOT {
			return "(!" + t.boolExpr(x.X) + ")"
		}
	case *ast.BinaryExpr:
		switch x.Op {
		case token.LAND:
			return "(" + t.boolExpr(x.X) + " && " + t.boolExpr(x.Y) + ")"
		case token.LOR:
			return "(" + t.boolExpr(x.X) + " || " + t.boolExpr(x.Y) + ")"
		case token.EQL, token.NEQ, token.LSS, token.LEQ, token.GTR, token.GEQ:
			var a, b string
			ca, okA := t.constVal(x.X)
			cb, okB := t.constVal(x.Y)
			var ta, tb glType
			switch {
			case okA && okB:
				a, b = lit(ca), lit(cb)
			case okA:
				tb, b = t.exprInfer(x.Y)
				a = lit(ca)
				ta = tb
			case okB:
				ta, a = t.exprInfer(x.X)
				b = lit(cb)
				tb = ta
			default:
				ta, a = t.exprInfer(x.X)
				tb, b = t.exprInfer(x.Y)
			}
			if ta != tb {
				t.fail(e, "comparison of different types")
			}
			if ta.kind == "bool" {
				if x.Op == token.EQL {
					return fmt.Sprintf("(%s == %s)", a, b)
				}
				if x.Op == token.NEQ {
					return fmt.Sprintf("(%s != %s)", a, b)
				}
				t.fail(e, "ordering on booleans")
			}
			op := map[token.Token]string{token.EQL: "=", token.NEQ: "≠", token.LSS: "<", token.LEQ: "≤", token.GTR: ">", token.GEQ: "≥"}[x.Op]
			return fmt.Sprintf("decide (%s %s %s)", a, op, b)
		}
	}
	t.fail(e, "unsupported boolean expression")
	return ""
}
