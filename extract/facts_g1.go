package main

// Regenerated facts for the g1 property group (C26, C30, C33, C08, C27).
//
//   * G1Rules.lean   — "guard functions": validation rules whose body is a
//     sequence of accessor reads and `if cond { return nil|err }` guards over
//     unsigned integers are translated to a Lean Bool function (true = the
//     rule returns nil). Comparisons only, so Nat is exact for uint64.
//   * delegation facts: which function an era's rule forwards to.
//   * G1Consts.lean  — protocol-version constants.

import (
	"bytes"
	"fmt"
	"go/ast"
	"go/printer"
	"go/token"
	"sort"
	"strings"
)

type g1Guard struct {
	pkg, name, leanName string
}

// g1GuardFunc translates a guard-style rule. Accessor calls `tx.M()` become
// Nat parameters named `M` (sorted), uint64 parameters of the Go function
// keep their names.
func g1GuardFunc(l *leanFile, g g1Guard) {
	p := loadPkg(g.pkg)
	fd := findFunc(p, "", g.name)
	if fd == nil || fd.Body == nil {
		fatal("g1 guard: %s.%s not found", g.pkg, g.name)
	}
	fail := func(n ast.Node, format string, a ...any) {
		fatal("g1 guard %s.%s at %s: %s", g.pkg, g.name, fset.Position(n.Pos()), fmt.Sprintf(format, a...))
	}
	intParams := []string{}
	objParams := map[string]bool{}
	for _, fl := range fd.Type.Params.List {
		isInt := false
		if id, ok := fl.Type.(*ast.Ident); ok && (id.Name == "uint64" || id.Name == "uint") {
			isInt = true
		}
		for _, n := range fl.Names {
			if isInt {
				intParams = append(intParams, n.Name)
			} else {
				objParams[n.Name] = true
			}
		}
	}
	accessors := map[string]bool{}
	locals := map[string]bool{}
	var expr func(e ast.Expr) string
	var cond func(e ast.Expr) string
	expr = func(e ast.Expr) string {
		switch x := e.(type) {
		case *ast.BasicLit:
			if x.Kind == token.INT {
				return x.Value
			}
		case *ast.ParenExpr:
			return "(" + expr(x.X) + ")"
		case *ast.Ident:
			if locals[x.Name] {
				return x.Name
			}
			for _, ip := range intParams {
				if ip == x.Name {
					return x.Name
				}
			}
		case *ast.CallExpr:
			if sel, ok := x.Fun.(*ast.SelectorExpr); ok && len(x.Args) == 0 {
				if id, ok := sel.X.(*ast.Ident); ok && objParams[id.Name] && id.Name == "tx" {
					accessors[sel.Sel.Name] = true
					return sel.Sel.Name
				}
			}
		}
		fail(e, "unsupported integer expression")
		return ""
	}
	cond = func(e ast.Expr) string {
		switch x := e.(type) {
		case *ast.ParenExpr:
			return "(" + cond(x.X) + ")"
		case *ast.UnaryExpr:
			if x.Op == token.NOT {
				return "(!" + cond(x.X) + ")"
			}
		case *ast.BinaryExpr:
			switch x.Op {
			case token.LAND:
				return "(" + cond(x.X) + " && " + cond(x.Y) + ")"
			case token.LOR:
				return "(" + cond(x.X) + " || " + cond(x.Y) + ")"
			case token.EQL:
				return "decide (" + expr(x.X) + " = " + expr(x.Y) + ")"
			case token.NEQ:
				return "decide (" + expr(x.X) + " ≠ " + expr(x.Y) + ")"
			case token.LSS:
				return "decide (" + expr(x.X) + " < " + expr(x.Y) + ")"
			case token.LEQ:
				return "decide (" + expr(x.X) + " ≤ " + expr(x.Y) + ")"
			case token.GTR:
				return "decide (" + expr(x.X) + " > " + expr(x.Y) + ")"
			case token.GEQ:
				return "decide (" + expr(x.X) + " ≥ " + expr(x.Y) + ")"
			}
		}
		fail(e, "unsupported condition")
		return ""
	}
	retVal := func(r *ast.ReturnStmt) string {
		if len(r.Results) != 1 {
			fail(r, "return arity")
		}
		if id, ok := r.Results[0].(*ast.Ident); ok && id.Name == "nil" {
			return "true"
		}
		if _, ok := r.Results[0].(*ast.CompositeLit); ok {
			return "false"
		}
		fail(r, "unsupported return value (only nil or an error literal)")
		return ""
	}
	define := func(s ast.Stmt, ind string) string {
		a, ok := s.(*ast.AssignStmt)
		if !ok || a.Tok != token.DEFINE || len(a.Lhs) != 1 || len(a.Rhs) != 1 {
			fail(s, "unsupported statement")
		}
		id := a.Lhs[0].(*ast.Ident)
		v := expr(a.Rhs[0])
		locals[id.Name] = true
		return fmt.Sprintf("%slet %s : Nat := %s\n", ind, id.Name, v)
	}
	var stmts func(list []ast.Stmt, ind string) string
	stmts = func(list []ast.Stmt, ind string) string {
		if len(list) == 0 {
			fail(fd, "control reaches end without return")
		}
		switch x := list[0].(type) {
		case *ast.ReturnStmt:
			return ind + retVal(x)
		case *ast.AssignStmt:
			return define(x, ind) + stmts(list[1:], ind)
		case *ast.IfStmt:
			out := ""
			if x.Init != nil {
				out = define(x.Init, ind)
			}
			if x.Else != nil || len(x.Body.List) != 1 {
				fail(x, "only `if cond { return ... }` guards are supported")
			}
			r, ok := x.Body.List[0].(*ast.ReturnStmt)
			if !ok {
				fail(x, "guard body must be a return")
			}
			return out + fmt.Sprintf("%sif %s then %s else\n", ind, cond(x.Cond), retVal(r)) + stmts(list[1:], ind)
		}
		fail(list[0], "unsupported statement %T", list[0])
		return ""
	}
	body := stmts(fd.Body.List, "  ")
	acc := []string{}
	for a := range accessors {
		acc = append(acc, a)
	}
	sort.Strings(acc)
	params := ""
	for _, ip := range intParams {
		params += fmt.Sprintf(" (%s : Nat)", ip)
	}
	for _, a := range acc {
		params += fmt.Sprintf(" (%s : Nat)", a)
	}
	pos := fset.Position(fd.Pos())
	l.pf("/-- translated from %s:%d `%s` (true = the rule returns nil) -/\n", strings.TrimPrefix(pos.Filename, repoRoot+"/"), pos.Line, g.name)
	l.pf("def %s%s : Bool :=\n%s\n\n", g.leanName, params, body)
}

// g1Delegate returns "pkg.Func" when the body of era's function `name` is a
// single `return pkg.Func(<its own parameters in order>)`, "self" otherwise.
func g1Delegate(era, name string) string {
	p := loadPkg("ledger/" + era)
	fd := findFunc(p, "", name)
	if fd == nil || fd.Body == nil {
		return "missing"
	}
	if len(fd.Body.List) != 1 {
		return "self"
	}
	r, ok := fd.Body.List[0].(*ast.ReturnStmt)
	if !ok || len(r.Results) != 1 {
		return "self"
	}
	call, ok := r.Results[0].(*ast.CallExpr)
	if !ok {
		return "self"
	}
	sel, ok := call.Fun.(*ast.SelectorExpr)
	if !ok {
		return "self"
	}
	pk, ok := sel.X.(*ast.Ident)
	if !ok {
		return "self"
	}
	names := []string{}
	for _, fl := range fd.Type.Params.List {
		for _, n := range fl.Names {
			names = append(names, n.Name)
		}
	}
	if len(call.Args) != len(names) {
		return "self"
	}
	for i, a := range call.Args {
		id, ok := a.(*ast.Ident)
		if !ok || id.Name != names[i] {
			return "self"
		}
	}
	return pk.Name + "." + sel.Sel.Name
}

// g1ForwardsTo is the looser form used where the forwarding function first narrows
// the protocol parameter type: the last statement is `return pkg.<name>(a, b, c, d)`
// with as many arguments as the function has parameters, the first three being its own
// first three parameters, and every other return in the body returns an error value
// that is not a call to another rule. "self" otherwise.
func g1ForwardsTo(era, name string) string {
	p := loadPkg("ledger/" + era)
	fd := findFunc(p, "", name)
	if fd == nil || fd.Body == nil || len(fd.Body.List) == 0 {
		return "missing"
	}
	names := []string{}
	for _, fl := range fd.Type.Params.List {
		for _, n := range fl.Names {
			names = append(names, n.Name)
		}
	}
	last, ok := fd.Body.List[len(fd.Body.List)-1].(*ast.ReturnStmt)
	if !ok || len(last.Results) != 1 {
		return "self"
	}
	call, ok := last.Results[0].(*ast.CallExpr)
	if !ok || len(call.Args) != len(names) || len(names) < 3 {
		return "self"
	}
	sel, ok := call.Fun.(*ast.SelectorExpr)
	if !ok || sel.Sel.Name != name {
		return "self"
	}
	pk, ok := sel.X.(*ast.Ident)
	if !ok {
		return "self"
	}
	for i := 0; i < 3; i++ {
		id, ok := call.Args[i].(*ast.Ident)
		if !ok || id.Name != names[i] {
			return "self"
		}
	}
	// no other statement may call a rule
	other := false
	for _, st := range fd.Body.List[:len(fd.Body.List)-1] {
		ast.Inspect(st, func(n ast.Node) bool {
			if c, ok := n.(*ast.CallExpr); ok {
				if s2, ok := c.Fun.(*ast.SelectorExpr); ok && strings.HasPrefix(s2.Sel.Name, "UtxoValidate") {
					other = true
				}
				if id, ok := c.Fun.(*ast.Ident); ok && strings.HasPrefix(id.Name, "UtxoValidate") {
					other = true
				}
			}
			return true
		})
	}
	if other {
		return "self"
	}
	return pk.Name + "." + sel.Sel.Name
}

func g1Forwardings(l *leanFile, leanName, fn string, eras []string) {
	parts := []string{}
	for _, e := range eras {
		parts = append(parts, fmt.Sprintf("(\"%s\", \"%s\")", e, g1ForwardsTo(e, fn)))
	}
	l.pf("/-- what each era's `%s` forwards to after narrowing the parameter type (\"self\" = has its own body) -/\n", fn)
	l.pf("def %s : List (String × String) := [%s]\n\n", leanName, strings.Join(parts, ", "))
}

func g1Delegations(l *leanFile, leanName, fn string, eras []string) {
	parts := []string{}
	for _, e := range eras {
		parts = append(parts, fmt.Sprintf("(\"%s\", \"%s\")", e, g1Delegate(e, fn)))
	}
	l.pf("/-- what each era's `%s` forwards to (\"self\" = has its own body) -/\n", fn)
	l.pf("def %s : List (String × String) := [%s]\n\n", leanName, strings.Join(parts, ", "))
}

// g1MaxSizeSource says what an era's UtxoValidateMaxTxSizeUtxo measures: "stored" when
// `txBytes` is first assigned from `tx.Cbor()` (with a re-encoding fallback only for an
// empty result), "encode" when it is assigned from `cbor.Encode(tx)`, "forward:<f>" when
// the function forwards, "unknown" otherwise.
func g1MaxSizeSource(era string) string {
	p := loadPkg("ledger/" + era)
	fd := findFunc(p, "", "UtxoValidateMaxTxSizeUtxo")
	if fd == nil || fd.Body == nil {
		return "missing"
	}
	if f := g1ForwardsTo(era, "UtxoValidateMaxTxSizeUtxo"); f != "self" {
		return "forward:" + f
	}
	res := "unknown"
	done := false
	ast.Inspect(fd.Body, func(n ast.Node) bool {
		if done {
			return false
		}
		as, ok := n.(*ast.AssignStmt)
		if !ok || len(as.Lhs) < 1 || len(as.Rhs) != 1 {
			return true
		}
		id, ok := as.Lhs[0].(*ast.Ident)
		if !ok || id.Name != "txBytes" {
			return true
		}
		call, ok := as.Rhs[0].(*ast.CallExpr)
		if !ok {
			return true
		}
		sel, ok := call.Fun.(*ast.SelectorExpr)
		if !ok {
			return true
		}
		x, _ := sel.X.(*ast.Ident)
		switch {
		case x != nil && x.Name == "tx" && sel.Sel.Name == "Cbor" && len(call.Args) == 0:
			res = "stored"
		case x != nil && x.Name == "cbor" && sel.Sel.Name == "Encode" && len(call.Args) == 1:
			res = "encode"
		}
		done = true
		return false
	})
	return res
}

// g1MarshalStoredFirst: does (*<Type>).MarshalCBOR start with
// `cborData := t.DecodeStoreCbor.Cbor(); if cborData != nil (or len(cborData) > 0) { return cborData, nil }` ?
func g1MarshalStoredFirst(era, typ string) bool {
	p := loadPkg("ledger/" + era)
	fd := findFunc(p, typ, "MarshalCBOR")
	if fd == nil || fd.Body == nil || len(fd.Body.List) < 2 {
		return false
	}
	as, ok := fd.Body.List[0].(*ast.AssignStmt)
	if !ok || len(as.Lhs) != 1 || len(as.Rhs) != 1 {
		return false
	}
	v, ok := as.Lhs[0].(*ast.Ident)
	if !ok {
		return false
	}
	call, ok := as.Rhs[0].(*ast.CallExpr)
	if !ok {
		return false
	}
	sel, ok := call.Fun.(*ast.SelectorExpr)
	if !ok || sel.Sel.Name != "Cbor" {
		return false
	}
	inner, ok := sel.X.(*ast.SelectorExpr)
	if !ok || inner.Sel.Name != "DecodeStoreCbor" {
		return false
	}
	is, ok := fd.Body.List[1].(*ast.IfStmt)
	if !ok || is.Init != nil || len(is.Body.List) != 1 {
		return false
	}
	be, ok := is.Cond.(*ast.BinaryExpr)
	if !ok {
		return false
	}
	condOk := false
	if id, ok := be.X.(*ast.Ident); ok && id.Name == v.Name && be.Op == token.NEQ {
		if y, ok := be.Y.(*ast.Ident); ok && y.Name == "nil" {
			condOk = true
		}
	}
	if c, ok := be.X.(*ast.CallExpr); ok && be.Op == token.GTR {
		if f, ok := c.Fun.(*ast.Ident); ok && f.Name == "len" && len(c.Args) == 1 {
			if a, ok := c.Args[0].(*ast.Ident); ok && a.Name == v.Name {
				if y, ok := be.Y.(*ast.BasicLit); ok && y.Value == "0" {
					condOk = true
				}
			}
		}
	}
	if !condOk {
		return false
	}
	r, ok := is.Body.List[0].(*ast.ReturnStmt)
	if !ok || len(r.Results) != 2 {
		return false
	}
	r0, ok0 := r.Results[0].(*ast.Ident)
	r1, ok1 := r.Results[1].(*ast.Ident)
	return ok0 && ok1 && r0.Name == v.Name && r1.Name == "nil"
}

// g1VcCases lists, for an era's UtxoValidateValueNotConservedUtxo, which certificate types
// add to which side of the balance and where the amount comes from:
// (side "consumed"|"produced", certificate type, source "KeyDeposit"|"PoolDeposit"|"Amount").
func g1VcCases(era string) [][3]string {
	p := loadPkg("ledger/" + era)
	fd := findFunc(p, "", "UtxoValidateValueNotConservedUtxo")
	if fd == nil || fd.Body == nil {
		fatal("g1 vc cases: ledger/%s: function not found", era)
	}
	res := [][3]string{}
	ast.Inspect(fd.Body, func(n ast.Node) bool {
		ts, ok := n.(*ast.TypeSwitchStmt)
		if !ok {
			return true
		}
		for _, cl := range ts.Body.List {
			cc := cl.(*ast.CaseClause)
			types := []string{}
			for _, t := range cc.List {
				if st, ok := t.(*ast.StarExpr); ok {
					if sel, ok := st.X.(*ast.SelectorExpr); ok {
						types = append(types, sel.Sel.Name)
					}
				}
			}
			for _, st := range cc.Body {
				ast.Inspect(st, func(m ast.Node) bool {
					call, ok := m.(*ast.CallExpr)
					if !ok {
						return true
					}
					sel, ok := call.Fun.(*ast.SelectorExpr)
					if !ok || sel.Sel.Name != "Add" || len(call.Args) != 2 {
						return true
					}
					recv, ok := sel.X.(*ast.Ident)
					if !ok || (recv.Name != "consumedValue" && recv.Name != "producedValue") {
						return true
					}
					src := "other"
					ast.Inspect(call.Args[1], func(k ast.Node) bool {
						if s2, ok := k.(*ast.SelectorExpr); ok {
							switch s2.Sel.Name {
							case "KeyDeposit", "PoolDeposit", "Amount":
								src = s2.Sel.Name
							}
						}
						return true
					})
					side := strings.TrimSuffix(recv.Name, "Value")
					for _, ty := range types {
						res = append(res, [3]string{side, ty, src})
					}
					return false
				})
			}
		}
		return true
	})
	return res
}

// g1DepositRuleCases: (certificate type, what its amount is compared with) for
// conway.UtxoValidateCertificateDeposits; empty when the rule does not exist.
func g1DepositRuleCases() [][2]string {
	p := loadPkg("ledger/conway")
	fd := findFunc(p, "", "UtxoValidateCertificateDeposits")
	res := [][2]string{}
	if fd == nil || fd.Body == nil {
		return res
	}
	ast.Inspect(fd.Body, func(n ast.Node) bool {
		ts, ok := n.(*ast.TypeSwitchStmt)
		if !ok {
			return true
		}
		for _, cl := range ts.Body.List {
			cc := cl.(*ast.CaseClause)
			src := "none"
			for _, st := range cc.Body {
				ast.Inspect(st, func(m ast.Node) bool {
					if s2, ok := m.(*ast.SelectorExpr); ok {
						switch s2.Sel.Name {
						case "KeyDepositAmount":
							src = "KeyDeposit"
						case "DRepDepositAmount":
							src = "DRepDeposit"
						case "Deposit":
							src = "Recorded"
						}
					}
					return true
				})
			}
			for _, t := range cc.List {
				if st, ok := t.(*ast.StarExpr); ok {
					if sel, ok := st.X.(*ast.SelectorExpr); ok {
						res = append(res, [2]string{sel.Sel.Name, src})
					}
				}
			}
		}
		return true
	})
	return res
}

func g1Src(n ast.Node) string {
	var b bytes.Buffer
	if err := printer.Fprint(&b, fset, n); err != nil {
		fatal("printer: %v", err)
	}
	return strings.Join(strings.Fields(b.String()), " ")
}

// g1PoolDepositGuard reads, from an era's UtxoValidateValueNotConservedUtxo, how the pool
// registration case decides that a deposit is due: the names the results of
// `ls.PoolCurrentState(...)` are bound to, and the init statement and condition of the
// `if` that guards the addition of PoolDeposit.
func g1PoolDepositGuard(era string) [3]string {
	p := loadPkg("ledger/" + era)
	fd := findFunc(p, "", "UtxoValidateValueNotConservedUtxo")
	if fd == nil || fd.Body == nil {
		fatal("g1 pool guard: ledger/%s: function not found", era)
	}
	res := [3]string{"?", "?", "?"}
	ast.Inspect(fd.Body, func(n ast.Node) bool {
		switch x := n.(type) {
		case *ast.AssignStmt:
			if len(x.Rhs) == 1 {
				if c, ok := x.Rhs[0].(*ast.CallExpr); ok {
					if sel, ok := c.Fun.(*ast.SelectorExpr); ok && sel.Sel.Name == "PoolCurrentState" {
						names := []string{}
						for _, l := range x.Lhs {
							names = append(names, g1Src(l))
						}
						res[0] = strings.Join(names, ",")
					}
				}
			}
		case *ast.IfStmt:
			uses := false
			ast.Inspect(x.Body, func(m ast.Node) bool {
				if sel, ok := m.(*ast.SelectorExpr); ok && sel.Sel.Name == "PoolDeposit" {
					uses = true
				}
				return true
			})
			if uses {
				if x.Init != nil {
					res[1] = g1Src(x.Init)
				} else {
					res[1] = ""
				}
				res[2] = g1Src(x.Cond)
			}
		}
		return true
	})
	return res
}

// g1PkgDirs maps a package qualifier used in rule files to its directory.
var g1PkgDirs = map[string]string{"common": "ledger/common", "shelley": "ledger/shelley", "conway": "ledger/conway"}

// g1CondExpr translates a boolean expression over the unsigned variables in
// `vars`, integer literals and package constants (comparisons, &&, ||, !).
func g1CondExpr(e ast.Expr, vars map[string]bool, where string) string {
	var num func(e ast.Expr) string
	num = func(e ast.Expr) string {
		switch x := e.(type) {
		case *ast.BasicLit:
			if x.Kind == token.INT {
				return x.Value
			}
		case *ast.ParenExpr:
			return "(" + num(x.X) + ")"
		case *ast.Ident:
			if vars[x.Name] {
				return x.Name
			}
		case *ast.SelectorExpr:
			if id, ok := x.X.(*ast.Ident); ok {
				if dir, ok := g1PkgDirs[id.Name]; ok {
					v := constOf(dir, x.Sel.Name)
					if v != "" && v[0] >= '0' && v[0] <= '9' {
						return v
					}
				}
			}
		}
		fatal("g1 cond %s at %s: unsupported integer expression", where, fset.Position(e.Pos()))
		return ""
	}
	switch x := e.(type) {
	case *ast.ParenExpr:
		return "(" + g1CondExpr(x.X, vars, where) + ")"
	case *ast.UnaryExpr:
		if x.Op == token.NOT {
			return "(!" + g1CondExpr(x.X, vars, where) + ")"
		}
	case *ast.BinaryExpr:
		ops := map[token.Token]string{token.EQL: "=", token.NEQ: "≠", token.LSS: "<", token.LEQ: "≤", token.GTR: ">", token.GEQ: "≥"}
		switch x.Op {
		case token.LAND:
			return "(" + g1CondExpr(x.X, vars, where) + " && " + g1CondExpr(x.Y, vars, where) + ")"
		case token.LOR:
			return "(" + g1CondExpr(x.X, vars, where) + " || " + g1CondExpr(x.Y, vars, where) + ")"
		}
		if o, ok := ops[x.Op]; ok {
			return "decide (" + num(x.X) + " " + o + " " + num(x.Y) + ")"
		}
	}
	fatal("g1 cond %s at %s: unsupported condition", where, fset.Position(e.Pos()))
	return ""
}

// g1CondFact finds the `if` statements of a function whose condition mentions
// the variable `v` (there must be exactly one, with a body that returns nil)
// and emits the condition as a Lean Bool function of v.
func g1CondFact(l *leanFile, pkg, fn, v, leanName string) {
	p := loadPkg(pkg)
	fd := findFunc(p, "", fn)
	if fd == nil || fd.Body == nil {
		fatal("g1 cond: %s.%s not found", pkg, fn)
	}
	var found []*ast.IfStmt
	ast.Inspect(fd.Body, func(n ast.Node) bool {
		is, ok := n.(*ast.IfStmt)
		if !ok {
			return true
		}
		uses := false
		ast.Inspect(is.Cond, func(m ast.Node) bool {
			if id, ok := m.(*ast.Ident); ok && id.Name == v {
				uses = true
			}
			return true
		})
		if uses {
			found = append(found, is)
		}
		return true
	})
	if len(found) != 1 {
		fatal("g1 cond: %s.%s has %d conditions over %s (expected exactly one)", pkg, fn, len(found), v)
	}
	is := found[0]
	okBody := false
	if len(is.Body.List) == 1 && is.Else == nil {
		if r, ok := is.Body.List[0].(*ast.ReturnStmt); ok && len(r.Results) == 1 {
			if id, ok := r.Results[0].(*ast.Ident); ok && id.Name == "nil" {
				okBody = true
			}
		}
	}
	if !okBody {
		fatal("g1 cond: %s.%s: the %s condition no longer guards a plain `return nil`", pkg, fn, v)
	}
	pos := fset.Position(is.Pos())
	l.pf("/-- condition at %s:%d of `%s` under which the rule returns nil without looking at delegations -/\n",
		strings.TrimPrefix(pos.Filename, repoRoot+"/"), pos.Line, fn)
	l.pf("def %s (%s : Nat) : Bool :=\n  %s\n\n", leanName, v, g1CondExpr(is.Cond, map[string]bool{v: true}, pkg+"."+fn))
}

func init() {
	registerGen(func() {
		l := newLean("G1Rules")
		l.pf("namespace GV.Gen.G1Rules\n\n")
		g1GuardFunc(l, g1Guard{"ledger/shelley", "UtxoValidateTimeToLive", "shelleyTimeToLive"})
		g1GuardFunc(l, g1Guard{"ledger/allegra", "UtxoValidateOutsideValidityIntervalUtxo", "allegraOutsideValidityInterval"})
		g1Delegations(l, "validityDelegation", "UtxoValidateOutsideValidityIntervalUtxo",
			[]string{"allegra", "mary", "alonzo", "babbage", "conway"})
		g1Forwardings(l, "valueConservationDelegation", "UtxoValidateValueNotConservedUtxo", []string{"allegra", "dijkstra"})
		g1Forwardings(l, "feeTooSmallDelegation", "UtxoValidateFeeTooSmallUtxo", []string{"allegra"})
		g1Forwardings(l, "maxTxSizeDelegation", "UtxoValidateMaxTxSizeUtxo", []string{"allegra"})
		{
			parts := []string{}
			for _, e := range []string{"shelley", "mary", "alonzo", "babbage", "conway", "dijkstra"} {
				parts = append(parts, fmt.Sprintf("(\"%s\", \"%s\")", e, g1MaxSizeSource(e)))
			}
			l.pf("/-- what `UtxoValidateMaxTxSizeUtxo` measures per era -/\n")
			l.pf("def maxSizeSource : List (String × String) := [%s]\n\n", strings.Join(parts, ", "))
			parts = []string{}
			for _, e := range [][2]string{{"alonzo", "AlonzoTransaction"}, {"babbage", "BabbageTransaction"}, {"conway", "ConwayTransaction"}} {
				b := "false"
				if g1MarshalStoredFirst(e[0], e[1]) {
					b = "true"
				}
				parts = append(parts, fmt.Sprintf("(\"%s\", %s)", e[0], b))
			}
			l.pf("/-- does the era's transaction `MarshalCBOR` return the stored original bytes first? -/\n")
			l.pf("def marshalReturnsStoredFirst : List (String × Bool) := [%s]\n\n", strings.Join(parts, ", "))
		}
		for _, e := range []string{"shelley", "mary", "alonzo", "babbage", "conway"} {
			parts := []string{}
			for _, c := range g1VcCases(e) {
				parts = append(parts, fmt.Sprintf("(\"%s\", \"%s\", \"%s\")", c[0], c[1], c[2]))
			}
			l.pf("/-- ledger/%s UtxoValidateValueNotConservedUtxo: (side, certificate type, where the amount comes from) -/\n", e)
			l.pf("def vcCases_%s : List (String × String × String) := [%s]\n\n", e, strings.Join(parts, ", "))
		}
		{
			parts := []string{}
			for _, c := range g1DepositRuleCases() {
				parts = append(parts, fmt.Sprintf("(\"%s\", \"%s\")", c[0], c[1]))
			}
			l.pf("/-- conway.UtxoValidateCertificateDeposits: (certificate type, what its amount is compared with) -/\n")
			l.pf("def depositRuleCases : List (String × String) := [%s]\n\n", strings.Join(parts, ", "))
		}
		{
			parts := []string{}
			for _, e := range []string{"shelley", "mary", "alonzo", "babbage", "conway"} {
				g := g1PoolDepositGuard(e)
				parts = append(parts, fmt.Sprintf("(\"%s\", %q, %q, %q)", e, g[0], g[1], g[2]))
			}
			l.pf("/-- per era: names bound to the results of ls.PoolCurrentState, init statement and condition of the `if` guarding the PoolDeposit addition -/\n")
			l.pf("def poolDepositGuard : List (String × String × String × String) := [%s]\n\n", strings.Join(parts, ", "))
		}
		g1CondFact(l, "ledger/conway", "UtxoValidateWithdrawals", "protocolMajor", "withdrawalsGateSkipped")
		g1Delegations(l, "withdrawalsDelegation", "UtxoValidateWithdrawals", []string{"conway"})
		l.pf("end GV.Gen.G1Rules\n")
	})
	registerGen(func() {
		emitConsts("G1Consts", [][3]string{
			{"ledger/common", "txTypeAlonzo", "txTypeAlonzo"},
			{"ledger/shelley", "TxTypeShelley", "txTypeShelleyEra"},
			{"ledger/allegra", "TxTypeAllegra", "txTypeAllegraEra"},
			{"ledger/mary", "TxTypeMary", "txTypeMaryEra"},
			{"ledger/alonzo", "TxTypeAlonzo", "txTypeAlonzoEra"},
			{"ledger/babbage", "TxTypeBabbage", "txTypeBabbageEra"},
			{"ledger/conway", "TxTypeConway", "txTypeConwayEra"},
			{"ledger/dijkstra", "TxTypeDijkstra", "txTypeDijkstraEra"},
			{"ledger/dijkstra", "MaxTxSize", "dijkstraDecodeMaxTxSize"},
			{"ledger/common", "ProtocolVersionConway", "protocolVersionConway"},
			{"ledger/common", "ProtocolVersionPlomin", "protocolVersionPlomin"},
			{"ledger/common", "ProtocolVersionVanRossem", "protocolVersionVanRossem"},
			{"ledger/common", "ProtocolVersionDijkstra", "protocolVersionDijkstra"},
		})
	})
}
