package main

// Facts for the g9 properties (C05 addresses): the address header constants and
// the mainnet trailing-bytes whitelist, read from ledger/common/address.go.

import (
	"go/ast"
	"go/token"
	"strconv"
)

func init() {
	registerGen(func() {
		emitConsts("AddrConsts", [][3]string{
			{"ledger/common", "AddressHeaderTypeMask", "headerTypeMask"},
			{"ledger/common", "AddressHeaderNetworkMask", "headerNetworkMask"},
			{"ledger/common", "AddressHashSize", "hashSize"},
			{"ledger/common", "AddressNetworkTestnet", "networkTestnet"},
			{"ledger/common", "AddressNetworkMainnet", "networkMainnet"},
			{"ledger/common", "AddressTypeKeyKey", "typeKeyKey"},
			{"ledger/common", "AddressTypeScriptKey", "typeScriptKey"},
			{"ledger/common", "AddressTypeKeyScript", "typeKeyScript"},
			{"ledger/common", "AddressTypeScriptScript", "typeScriptScript"},
			{"ledger/common", "AddressTypeKeyPointer", "typeKeyPointer"},
			{"ledger/common", "AddressTypeScriptPointer", "typeScriptPointer"},
			{"ledger/common", "AddressTypeKeyNone", "typeKeyNone"},
			{"ledger/common", "AddressTypeScriptNone", "typeScriptNone"},
			{"ledger/common", "AddressTypeByron", "typeByron"},
			{"ledger/common", "AddressTypeNoneKey", "typeNoneKey"},
			{"ledger/common", "AddressTypeNoneScript", "typeNoneScript"},
		})
		g9Trailers()
		g9AddrSwitches()
		g9NativeScriptIds()
	})
}

// g9Trailers: `var knownMalformedAddressTrailers = [][]byte{ {..}, .. }` as a Lean list of byte lists.
func g9Trailers() {
	p := loadPkg("ledger/common")
	v := findVar(p, "knownMalformedAddressTrailers")
	cl, ok := v.(*ast.CompositeLit)
	if !ok {
		fatal("knownMalformedAddressTrailers: not a composite literal")
	}
	l := newLean("AddrTrailers")
	l.pf("namespace GV.Gen.AddrTrailers\n")
	l.pf("def trailers : List (List UInt8) := [\n")
	for i, e := range cl.Elts {
		inner, ok := e.(*ast.CompositeLit)
		if !ok {
			fatal("knownMalformedAddressTrailers[%d]: not a composite literal", i)
		}
		l.pf("  [")
		for j, b := range inner.Elts {
			bl, ok := b.(*ast.BasicLit)
			if !ok || bl.Kind != token.INT {
				fatal("knownMalformedAddressTrailers[%d][%d]: not an integer literal", i, j)
			}
			n, err := strconv.ParseUint(bl.Value, 0, 8)
			if err != nil {
				fatal("knownMalformedAddressTrailers[%d][%d]: %v", i, j, err)
			}
			if j > 0 {
				l.pf(", ")
			}
			l.pf("%d", n)
		}
		if i+1 < len(cl.Elts) {
			l.pf("],\n")
		} else {
			l.pf("]\n")
		}
	}
	l.pf("]\n")
	l.pf("end GV.Gen.AddrTrailers\n")
}

// g9AddrSwitches: the three `switch a.addressType` statements of populateFromBytes
// (known types; payment payload kind; staking payload kind) as Lean lists of type numbers,
// so that adding/removing/moving one constant in a case list changes a generated table.
func g9AddrSwitches() {
	p := loadPkg("ledger/common")
	fd := findFunc(p, "Address", "populateFromBytes")
	if fd == nil {
		fatal("Address.populateFromBytes not found")
	}
	var sws []*ast.SwitchStmt
	ast.Inspect(fd.Body, func(n ast.Node) bool {
		if sw, ok := n.(*ast.SwitchStmt); ok {
			if sel, ok := sw.Tag.(*ast.SelectorExpr); ok && sel.Sel.Name == "addressType" {
				sws = append(sws, sw)
			}
		}
		return true
	})
	if len(sws) != 3 {
		fatal("populateFromBytes: expected 3 switches on addressType, found %d", len(sws))
	}
	cases := func(sw *ast.SwitchStmt) [][]string {
		out := [][]string{}
		for _, st := range sw.Body.List {
			cc := st.(*ast.CaseClause)
			if cc.List == nil {
				continue // default
			}
			vals := []string{}
			for _, e := range cc.List {
				id, ok := e.(*ast.Ident)
				if !ok {
					fatal("populateFromBytes: case expression is not a constant name")
				}
				vals = append(vals, constOf("ledger/common", id.Name))
			}
			out = append(out, vals)
		}
		return out
	}
	known, pay, stake := cases(sws[0]), cases(sws[1]), cases(sws[2])
	if len(known) != 1 || len(pay) != 2 || len(stake) != 3 {
		fatal("populateFromBytes: switch shapes changed (%d/%d/%d case clauses)", len(known), len(pay), len(stake))
	}
	l := newLean("AddrSwitches")
	l.pf("namespace GV.Gen.AddrSwitches\n")
	emit := func(name string, vals []string) {
		l.pf("def %s : List Nat := [", name)
		for i, v := range vals {
			if i > 0 {
				l.pf(", ")
			}
			l.pf("%s", v)
		}
		l.pf("]\n")
	}
	emit("knownTypes", known[0])
	emit("payKey", pay[0])
	emit("payScript", pay[1])
	emit("stakeKey", stake[0])
	emit("stakeScript", stake[1])
	emit("stakePointer", stake[2])
	l.pf("end GV.Gen.AddrSwitches\n")
}

// g9NativeScriptIds: the `switch id` of NativeScript.UnmarshalCBOR as (id, Go type name) pairs.
func g9NativeScriptIds() {
	p := loadPkg("ledger/common")
	fd := findFunc(p, "NativeScript", "UnmarshalCBOR")
	if fd == nil {
		fatal("NativeScript.UnmarshalCBOR not found")
	}
	type pair struct{ id, name string }
	var pairs []pair
	ast.Inspect(fd.Body, func(n ast.Node) bool {
		sw, ok := n.(*ast.SwitchStmt)
		if !ok {
			return true
		}
		if id, ok := sw.Tag.(*ast.Ident); !ok || id.Name != "id" {
			return true
		}
		for _, st := range sw.Body.List {
			cc := st.(*ast.CaseClause)
			if cc.List == nil {
				continue
			}
			if len(cc.List) != 1 || len(cc.Body) != 1 {
				fatal("NativeScript.UnmarshalCBOR: unexpected case shape")
			}
			lit, ok := cc.List[0].(*ast.BasicLit)
			as, ok2 := cc.Body[0].(*ast.AssignStmt)
			if !ok || !ok2 || len(as.Rhs) != 1 {
				fatal("NativeScript.UnmarshalCBOR: unexpected case shape")
			}
			un, ok := as.Rhs[0].(*ast.UnaryExpr)
			if !ok {
				fatal("NativeScript.UnmarshalCBOR: unexpected case body")
			}
			cl, ok := un.X.(*ast.CompositeLit)
			if !ok {
				fatal("NativeScript.UnmarshalCBOR: unexpected case body")
			}
			tn, ok := cl.Type.(*ast.Ident)
			if !ok {
				fatal("NativeScript.UnmarshalCBOR: unexpected case body")
			}
			pairs = append(pairs, pair{lit.Value, tn.Name})
		}
		return false
	})
	if len(pairs) == 0 {
		fatal("NativeScript.UnmarshalCBOR: switch on id not found")
	}
	l := newLean("NativeScriptIds")
	l.pf("namespace GV.Gen.NativeScriptIds\n")
	l.pf("def table : List (Nat × String) := [")
	for i, pr := range pairs {
		if i > 0 {
			l.pf(", ")
		}
		l.pf("(%s, %s)", pr.id, strconv.Quote(pr.name))
	}
	l.pf("]\n")
	l.pf("end GV.Gen.NativeScriptIds\n")
}
