package main

// Facts for the g9 properties (C05 addresses): the address header constants and
// the mainnet trailing-bytes whitelist, read from ledger/common/address.go.

import (
	"go/ast"
	"go/token"
	"strconv"
)

func init() {
	registerGen(func() {
		emitConsts("AddrConsts", [][3]string{
			{"ledger/common", "AddressHeaderTypeMask", "headerTypeMask"},
			{"ledger/common", "AddressHeaderNetworkMask", "headerNetworkMask"},
			{"ledger/common", "AddressHashSize", "hashSize"},
			{"ledger/common", "AddressNetworkTestnet", "networkTestnet"},
			{"ledger/common", "AddressNetworkMainnet", "networkMainnet"},
			{"ledger/common", "AddressTypeKeyKey", "typeKeyKey"},
			{"ledger/common", "AddressTypeScriptKey", "typeScriptKey"},
			{"ledger/common", "AddressTypeKeyScript", "typeKeyScript"},
			{"ledger/common", "AddressTypeScriptScript", "typeScriptScript"},
			{"ledger/common", "AddressTypeKeyPointer", "typeKeyPointer"},
			{"ledger/common", "AddressTypeScriptPointer", "typeScriptPointer"},
			{"ledger/common", "AddressTypeKeyNone", "typeKeyNone"},
			{"ledger/common", "AddressTypeScriptNone", "typeScriptNone"},
			{"ledger/common", "AddressTypeByron", "typeByron"},
			{"ledger/common", "AddressTypeNoneKey", "typeNoneKey"},
			{"ledger/common", "AddressTypeNoneScript", "typeNoneScript"},
		})
		g9Trailers()
	})
}

// g9Trailers: `var knownMalformedAddressTrailers = [][]byte{ {..}, .. }` as a Lean list of byte lists.
func g9Trailers() {
	p := loadPkg("ledger/common")
	v := findVar(p, "knownMalformedAddressTrailers")
	cl, ok := v.(*ast.CompositeLit)
	if !ok {
		fatal("knownMalformedAddressTrailers: not a composite literal")
	}
	l := newLean("AddrTrailers")
	l.pf("namespace GV.Gen.AddrTrailers\n")
	l.pf("def trailers : List (List UInt8) := [\n")
	for i, e := range cl.Elts {
		inner, ok := e.(*ast.CompositeLit)
		if !ok {
			fatal("knownMalformedAddressTrailers[%d]: not a composite literal", i)
		}
		l.pf("  [")
		for j, b := range inner.Elts {
			bl, ok := b.(*ast.BasicLit)
			if !ok || bl.Kind != token.INT {
				fatal("knownMalformedAddressTrailers[%d][%d]: not an integer literal", i, j)
			}
			n, err := strconv.ParseUint(bl.Value, 0, 8)
			if err != nil {
				fatal("knownMalformedAddressTrailers[%d][%d]: %v", i, j, err)
			}
			if j > 0 {
				l.pf(", ")
			}
			l.pf("%d", n)
		}
		if i+1 < len(cl.Elts) {
			l.pf("],\n")
		} else {
			l.pf("]\n")
		}
	}
	l.pf("]\n")
	l.pf("end GV.Gen.AddrTrailers\n")
}
