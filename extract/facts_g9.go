package main

// Facts for the g9 properties (C05 addresses): the address header constants and
// the mainnet trailing-bytes whitelist, read from ledger/common/address.go.

import (
	"go/ast"
	"go/printer"
	"go/token"
	"strconv"
	"strings"
)

func init() {
	registerGen(func() {
		emitConsts("AddrConsts", [][3]string{
			{"ledger/common", "AddressHeaderTypeMask", "headerTypeMask"},
			{"ledger/common", "AddressHeaderNetworkMask", "headerNetworkMask"},
			{"ledger/common", "AddressHashSize", "hashSize"},
			{"ledger/common", "AddressNetworkTestnet", "networkTestnet"},
			{"ledger/common", "AddressNetworkMainnet", "networkMainnet"},
			{"ledger/common", "AddressTypeKeyKey", "typeKeyKey"},
			{"ledger/common", "AddressTypeScriptKey", "typeScriptKey"},
			{"ledger/common", "AddressTypeKeyScript", "typeKeyScript"},
			{"ledger/common", "AddressTypeScriptScript", "typeScriptScript"},
			{"ledger/common", "AddressTypeKeyPointer", "typeKeyPointer"},
			{"ledger/common", "AddressTypeScriptPointer", "typeScriptPointer"},
			{"ledger/common", "AddressTypeKeyNone", "typeKeyNone"},
			{"ledger/common", "AddressTypeScriptNone", "typeScriptNone"},
			{"ledger/common", "AddressTypeByron", "typeByron"},
			{"ledger/common", "AddressTypeNoneKey", "typeNoneKey"},
			{"ledger/common", "AddressTypeNoneScript", "typeNoneScript"},
		})
		g9Trailers()
		g9AddrSwitches()
		g9NativeScriptIds()
		g9NativeScriptHash()
		g9NativeScriptStructs()
		g9ShortLex()
	})
}

// g9Trailers: `var knownMalformedAddressTrailers = [][]byte{ {..}, .. }` as a Lean list of byte lists.
func g9Trailers() {
	p := loadPkg("ledger/common")
	v := findVar(p, "knownMalformedAddressTrailers")
	cl, ok := v.(*ast.CompositeLit)
	if !ok {
		fatal("knownMalformedAddressTrailers: not a composite literal")
	}
	l := newLean("AddrTrailers")
	l.pf("namespace GV.Gen.AddrTrailers\n")
	l.pf("def trailers : List (List UInt8) := [\n")
	for i, e := range cl.Elts {
		inner, ok := e.(*ast.CompositeLit)
		if !ok {
			fatal("knownMalformedAddressTrailers[%d]: not a composite literal", i)
		}
		l.pf("  [")
		for j, b := range inner.Elts {
			bl, ok := b.(*ast.BasicLit)
			if !ok || bl.Kind != token.INT {
				fatal("knownMalformedAddressTrailers[%d][%d]: not an integer literal", i, j)
			}
			n, err := strconv.ParseUint(bl.Value, 0, 8)
			if err != nil {
				fatal("knownMalformedAddressTrailers[%d][%d]: %v", i, j, err)
			}
			if j > 0 {
				l.pf(", ")
			}
			l.pf("%d", n)
		}
		if i+1 < len(cl.Elts) {
			l.pf("],\n")
		} else {
			l.pf("]\n")
		}
	}
	l.pf("]\n")
	l.pf("end GV.Gen.AddrTrailers\n")
}

// g9AddrSwitches: the three `switch a.addressType` statements of populateFromBytes
// (known types; payment payload kind; staking payload kind) as Lean lists of type numbers,
// so that adding/removing/moving one constant in a case list changes a generated table.
func g9AddrSwitches() {
	p := loadPkg("ledger/common")
	fd := findFunc(p, "Address", "populateFromBytes")
	if fd == nil {
		fatal("Address.populateFromBytes not found")
	}
	var sws []*ast.SwitchStmt
	ast.Inspect(fd.Body, func(n ast.Node) bool {
		if sw, ok := n.(*ast.SwitchStmt); ok {
			if sel, ok := sw.Tag.(*ast.SelectorExpr); ok && sel.Sel.Name == "addressType" {
				sws = append(sws, sw)
			}
		}
		return true
	})
	if len(sws) != 3 {
		fatal("populateFromBytes: expected 3 switches on addressType, found %d", len(sws))
	}
	cases := func(sw *ast.SwitchStmt) [][]string {
		out := [][]string{}
		for _, st := range sw.Body.List {
			cc := st.(*ast.CaseClause)
			if cc.List == nil {
				continue // default
			}
			vals := []string{}
			for _, e := range cc.List {
				id, ok := e.(*ast.Ident)
				if !ok {
					fatal("populateFromBytes: case expression is not a constant name")
				}
				vals = append(vals, constOf("ledger/common", id.Name))
			}
			out = append(out, vals)
		}
		return out
	}
	known, pay, stake := cases(sws[0]), cases(sws[1]), cases(sws[2])
	if len(known) != 1 || len(pay) != 2 || len(stake) != 3 {
		fatal("populateFromBytes: switch shapes changed (%d/%d/%d case clauses)", len(known), len(pay), len(stake))
	}
	l := newLean("AddrSwitches")
	l.pf("namespace GV.Gen.AddrSwitches\n")
	emit := func(name string, vals []string) {
		l.pf("def %s : List Nat := [", name)
		for i, v := range vals {
			if i > 0 {
				l.pf(", ")
			}
			l.pf("%s", v)
		}
		l.pf("]\n")
	}
	emit("knownTypes", known[0])
	emit("payKey", pay[0])
	emit("payScript", pay[1])
	emit("stakeKey", stake[0])
	emit("stakeScript", stake[1])
	emit("stakePointer", stake[2])
	l.pf("end GV.Gen.AddrSwitches\n")
}

// g9NativeScriptIds: the `switch id` of NativeScript.UnmarshalCBOR as (id, Go type name) pairs.
func g9NativeScriptIds() {
	p := loadPkg("ledger/common")
	fd := findFunc(p, "NativeScript", "UnmarshalCBOR")
	if fd == nil {
		fatal("NativeScript.UnmarshalCBOR not found")
	}
	type pair struct{ id, name string }
	var pairs []pair
	ast.Inspect(fd.Body, func(n ast.Node) bool {
		sw, ok := n.(*ast.SwitchStmt)
		if !ok {
			return true
		}
		if id, ok := sw.Tag.(*ast.Ident); !ok || id.Name != "id" {
			return true
		}
		for _, st := range sw.Body.List {
			cc := st.(*ast.CaseClause)
			if cc.List == nil {
				continue
			}
			if len(cc.List) != 1 || len(cc.Body) != 1 {
				fatal("NativeScript.UnmarshalCBOR: unexpected case shape")
			}
			lit, ok := cc.List[0].(*ast.BasicLit)
			as, ok2 := cc.Body[0].(*ast.AssignStmt)
			if !ok || !ok2 || len(as.Rhs) != 1 {
				fatal("NativeScript.UnmarshalCBOR: unexpected case shape")
			}
			un, ok := as.Rhs[0].(*ast.UnaryExpr)
			if !ok {
				fatal("NativeScript.UnmarshalCBOR: unexpected case body")
			}
			cl, ok := un.X.(*ast.CompositeLit)
			if !ok {
				fatal("NativeScript.UnmarshalCBOR: unexpected case body")
			}
			tn, ok := cl.Type.(*ast.Ident)
			if !ok {
				fatal("NativeScript.UnmarshalCBOR: unexpected case body")
			}
			pairs = append(pairs, pair{lit.Value, tn.Name})
		}
		return false
	})
	if len(pairs) == 0 {
		fatal("NativeScript.UnmarshalCBOR: switch on id not found")
	}
	l := newLean("NativeScriptIds")
	l.pf("namespace GV.Gen.NativeScriptIds\n")
	l.pf("def table : List (Nat × String) := [")
	for i, pr := range pairs {
		if i > 0 {
			l.pf(", ")
		}
		l.pf("(%s, %s)", pr.id, strconv.Quote(pr.name))
	}
	l.pf("]\n")
	l.pf("end GV.Gen.NativeScriptIds\n")
}

// ---------------------------------------------------------------- round 4 facts (C29, C31)

func g9Print(n ast.Node) string {
	var sb strings.Builder
	if err := printer.Fprint(&sb, fset, n); err != nil {
		fatal("print: %v", err)
	}
	return strings.Join(strings.Fields(sb.String()), " ")
}

// g9NativeScriptHash: what NativeScript.Hash hashes. The body must be the single statement
//   return ScriptHash(<hashFn>(slices.Concat([]byte{<prefix>}, []byte(<bytes>))))
// and the three holes are emitted as strings (so that hashing a re-encoding instead of the stored
// bytes `s.Cbor()`, another prefix or another digest changes a generated definition).
func g9NativeScriptHash() {
	p := loadPkg("ledger/common")
	fd := findFunc(p, "NativeScript", "Hash")
	if fd == nil {
		fatal("NativeScript.Hash not found")
	}
	l := newLean("NativeScriptHash")
	l.pf("namespace GV.Gen.NativeScriptHash\n")
	recv := ""
	if fd.Recv != nil && len(fd.Recv.List) == 1 && len(fd.Recv.List[0].Names) == 1 {
		recv = fd.Recv.List[0].Names[0].Name
	}
	hashFn, prefix, bytesExpr := "?", "?", "?"
	whole := g9Print(fd.Body)
	func() {
		if len(fd.Body.List) != 1 {
			return
		}
		ret, ok := fd.Body.List[0].(*ast.ReturnStmt)
		if !ok || len(ret.Results) != 1 {
			return
		}
		conv, ok := ret.Results[0].(*ast.CallExpr)
		if !ok || g9Print(conv.Fun) != "ScriptHash" || len(conv.Args) != 1 {
			return
		}
		hc, ok := conv.Args[0].(*ast.CallExpr)
		if !ok || len(hc.Args) != 1 {
			return
		}
		cc, ok := hc.Args[0].(*ast.CallExpr)
		if !ok || g9Print(cc.Fun) != "slices.Concat" || len(cc.Args) != 2 {
			return
		}
		lit, ok := cc.Args[0].(*ast.CompositeLit)
		if !ok || g9Print(lit.Type) != "[]byte" || len(lit.Elts) != 1 {
			return
		}
		bc, ok := cc.Args[1].(*ast.CallExpr)
		if !ok || g9Print(bc.Fun) != "[]byte" || len(bc.Args) != 1 {
			return
		}
		hashFn, prefix, bytesExpr = g9Print(hc.Fun), g9Print(lit.Elts[0]), g9Print(bc.Args[0])
	}()
	l.pf("def receiver : String := %s\n", strconv.Quote(recv))
	l.pf("def hashFn : String := %s\n", strconv.Quote(hashFn))
	l.pf("def prefixExpr : String := %s\n", strconv.Quote(prefix))
	l.pf("def bytesExpr : String := %s\n", strconv.Quote(bytesExpr))
	l.pf("def body : String := %s\n", strconv.Quote(whole))
	l.pf("def prefixValue : Nat := %s -- ledger/common.ScriptRefTypeNativeScript\n", constOf("ledger/common", "ScriptRefTypeNativeScript"))
	// where the stored bytes come from: the first statement of NativeScript.UnmarshalCBOR
	first := "?"
	if ud := findFunc(p, "NativeScript", "UnmarshalCBOR"); ud != nil && len(ud.Body.List) > 0 {
		first = g9Print(ud.Body.List[0])
		if len(ud.Type.Params.List) == 1 && len(ud.Type.Params.List[0].Names) == 1 {
			l.pf("def unmarshalParam : String := %s\n", strconv.Quote(ud.Type.Params.List[0].Names[0].Name))
		}
	}
	l.pf("def unmarshalFirstStmt : String := %s\n", strconv.Quote(first))
	l.pf("end GV.Gen.NativeScriptHash\n")
}

// g9NativeScriptStructs: field names and types, in order, of the NativeScript* structures the
// decoder fills by position (cbor.StructAsArray).
func g9NativeScriptStructs() {
	p := loadPkg("ledger/common")
	want := []string{"NativeScriptPubkey", "NativeScriptAll", "NativeScriptAny", "NativeScriptNofK",
		"NativeScriptInvalidBefore", "NativeScriptInvalidHereafter", "NativeScriptRequireGuard"}
	found := map[string][]string{}
	for _, f := range p.files {
		for _, d := range f.Decls {
			gd, ok := d.(*ast.GenDecl)
			if !ok || gd.Tok != token.TYPE {
				continue
			}
			for _, sp := range gd.Specs {
				ts := sp.(*ast.TypeSpec)
				st, ok := ts.Type.(*ast.StructType)
				if !ok {
					continue
				}
				fields := []string{}
				for _, fl := range st.Fields.List {
					t := g9Print(fl.Type)
					if len(fl.Names) == 0 {
						fields = append(fields, "embedded "+t)
					}
					for _, n := range fl.Names {
						fields = append(fields, n.Name+" "+t)
					}
				}
				found[ts.Name.Name] = fields
			}
		}
	}
	l := newLean("NativeScriptStructs")
	l.pf("namespace GV.Gen.NativeScriptStructs\n")
	l.pf("def table : List (String × List String) := [\n")
	for i, w := range want {
		fs, ok := found[w]
		if !ok {
			fatal("struct %s not found", w)
		}
		q := make([]string, len(fs))
		for j, f := range fs {
			q[j] = strconv.Quote(f)
		}
		sep := ","
		if i == len(want)-1 {
			sep = ""
		}
		l.pf("  (%s, [%s])%s\n", strconv.Quote(w), strings.Join(q, ", "), sep)
	}
	l.pf("]\n")
	l.pf("end GV.Gen.NativeScriptStructs\n")
}

// g9ShortLex: a translator for exactly the shape of common.ShortLex:
//   if len(a) OP len(b) { return K } ... ; for i := range a { if a[i] OP b[i] { return K } ... } ; return K
// into a Lean function over byte lists. Comparison operators and returned constants are taken from
// the source; anything else is refused.
func g9ShortLex() {
	p := loadPkg("ledger/common")
	fd := findFunc(p, "", "ShortLex")
	if fd == nil {
		fatal("ShortLex not found")
	}
	if len(fd.Type.Params.List) != 1 || len(fd.Type.Params.List[0].Names) != 2 || g9Print(fd.Type.Params.List[0].Type) != "[]byte" {
		fatal("ShortLex: unexpected parameters")
	}
	a, b := fd.Type.Params.List[0].Names[0].Name, fd.Type.Params.List[0].Names[1].Name
	leanOp := map[token.Token]string{token.LSS: "<", token.GTR: ">", token.LEQ: "≤", token.GEQ: "≥", token.EQL: "=", token.NEQ: "≠"}
	retConst := func(s ast.Stmt) string {
		r, ok := s.(*ast.ReturnStmt)
		if !ok || len(r.Results) != 1 {
			fatal("ShortLex: expected `return <const>`")
		}
		v := g9Print(r.Results[0])
		if _, err := strconv.Atoi(v); err != nil {
			fatal("ShortLex: return value %q is not an integer literal", v)
		}
		if strings.HasPrefix(v, "-") {
			return "(" + v + ")"
		}
		return v
	}
	// rule: (operator, returned constant) for an `if L OP R { return K }` whose operands print as wantL / wantR
	rule := func(s ast.Stmt, wantL, wantR string) (string, string) {
		is, ok := s.(*ast.IfStmt)
		if !ok || is.Init != nil || is.Else != nil || len(is.Body.List) != 1 {
			fatal("ShortLex: unexpected statement %s", g9Print(s))
		}
		be, ok := is.Cond.(*ast.BinaryExpr)
		if !ok || g9Print(be.X) != wantL || g9Print(be.Y) != wantR {
			fatal("ShortLex: unexpected condition %s", g9Print(is.Cond))
		}
		op, ok := leanOp[be.Op]
		if !ok {
			fatal("ShortLex: unexpected operator %s", be.Op)
		}
		return op, retConst(is.Body.List[0])
	}
	var lenRules, elemRules [][2]string
	var final string
	st := fd.Body.List
	i := 0
	for ; i < len(st); i++ {
		if _, ok := st[i].(*ast.IfStmt); !ok {
			break
		}
		op, k := rule(st[i], "len("+a+")", "len("+b+")")
		lenRules = append(lenRules, [2]string{op, k})
	}
	if i+2 != len(st) {
		fatal("ShortLex: expected `for` then `return`")
	}
	rs, ok := st[i].(*ast.RangeStmt)
	if !ok || rs.Value != nil || g9Print(rs.X) != a || rs.Tok != token.DEFINE {
		fatal("ShortLex: expected `for i := range %s`", a)
	}
	idx := g9Print(rs.Key)
	for _, s := range rs.Body.List {
		op, k := rule(s, a+"["+idx+"]", b+"["+idx+"]")
		elemRules = append(elemRules, [2]string{op, k})
	}
	final = retConst(st[i+1])
	l := newLean("ShortLex")
	l.pf("namespace GV.Gen.ShortLex\n")
	l.pf("/-- the element loop of `ShortLex` (`for i := range a` over two slices of equal length) -/\n")
	l.pf("def go : List UInt8 → List UInt8 → Int\n")
	l.pf("  | x :: xs, y :: ys =>\n")
	for _, r := range elemRules {
		l.pf("    if x.toNat %s y.toNat then %s else\n", r[0], r[1])
	}
	l.pf("    go xs ys\n")
	l.pf("  | _, _ => %s\n", final)
	l.pf("/-- `common.ShortLex`, translated from the source -/\n")
	l.pf("def shortLex (a b : List UInt8) : Int :=\n")
	for _, r := range lenRules {
		l.pf("  if a.length %s b.length then %s else\n", r[0], r[1])
	}
	l.pf("  go a b\n")
	l.pf("end GV.Gen.ShortLex\n")
}
