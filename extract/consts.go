package main

import (
	"go/ast"
	"go/constant"
	"go/token"
	"strconv"
)

// constant evaluation over a package's own const declarations (literals,
// arithmetic, shifts, iota, references to other constants of the package).
type constEnv struct {
	p    *pkgInfo
	memo map[string]constant.Value
}

func (e *constEnv) lookup(name string) constant.Value {
	if v, ok := e.memo[name]; ok {
		return v
	}
	for _, f := range e.p.files {
		for _, d := range f.Decls {
			gd, ok := d.(*ast.GenDecl)
			if !ok || gd.Tok != token.CONST {
				continue
			}
			var lastVals []ast.Expr
			for i, s := range gd.Specs {
				vs := s.(*ast.ValueSpec)
				vals := vs.Values
				if len(vals) == 0 {
					vals = lastVals
				} else {
					lastVals = vals
				}
				for j, n := range vs.Names {
					if n.Name == name {
						if j >= len(vals) {
							fatal("const %s has no value", name)
						}
						v := e.eval(vals[j], int64(i))
						e.memo[name] = v
						return v
					}
				}
			}
		}
	}
	fatal("constant %s not found in %s", name, e.p.dir)
	return nil
}

func (e *constEnv) eval(x ast.Expr, iota int64) constant.Value {
	switch t := x.(type) {
	case *ast.BasicLit:
		v := constant.MakeFromLiteral(t.Value, t.Kind, 0)
		if v.Kind() == constant.Unknown {
			fatal("bad literal %s", t.Value)
		}
		return v
	case *ast.Ident:
		if t.Name == "iota" {
			return constant.MakeInt64(iota)
		}
		return e.lookup(t.Name)
	case *ast.ParenExpr:
		return e.eval(t.X, iota)
	case *ast.BinaryExpr:
		a, b := e.eval(t.X, iota), e.eval(t.Y, iota)
		switch t.Op {
		case token.SHL, token.SHR:
			s, _ := constant.Uint64Val(b)
			return constant.Shift(a, t.Op, uint(s))
		case token.QUO:
			if a.Kind() == constant.Int && b.Kind() == constant.Int {
				return constant.BinaryOp(a, token.QUO_ASSIGN, b)
			}
		}
		return constant.BinaryOp(a, t.Op, b)
	case *ast.UnaryExpr:
		return constant.UnaryOp(t.Op, e.eval(t.X, iota), 0)
	case *ast.CallExpr:
		// conversion like uint16(5) / time.Duration(...) : single argument
		if len(t.Args) == 1 {
			return e.eval(t.Args[0], iota)
		}
	case *ast.SelectorExpr:
		// time.Second etc. expressed in nanoseconds
		if id, ok := t.X.(*ast.Ident); ok && id.Name == "time" {
			switch t.Sel.Name {
			case "Nanosecond":
				return constant.MakeInt64(1)
			case "Microsecond":
				return constant.MakeInt64(1000)
			case "Millisecond":
				return constant.MakeInt64(1000000)
			case "Second":
				return constant.MakeInt64(1000000000)
			case "Minute":
				return constant.MakeInt64(60 * 1000000000)
			case "Hour":
				return constant.MakeInt64(3600 * 1000000000)
			}
		}
		if id, ok := t.X.(*ast.Ident); ok && id.Name == "math" {
			switch t.Sel.Name {
			case "MaxUint64":
				return constant.MakeUint64(^uint64(0))
			case "MaxUint32":
				return constant.MakeUint64(1<<32 - 1)
			case "MaxUint16":
				return constant.MakeUint64(1<<16 - 1)
			case "MaxInt64":
				return constant.MakeInt64(1<<63 - 1)
			}
		}
	}
	fatal("unsupported constant expression at %s", fset.Position(x.Pos()))
	return nil
}

func constOf(pkg, name string) string {
	p := loadPkg(pkg)
	e := &constEnv{p: p, memo: map[string]constant.Value{}}
	v := e.lookup(name)
	switch v.Kind() {
	case constant.Int:
		return v.ExactString()
	case constant.String:
		return strconv.Quote(constant.StringVal(v))
	case constant.Bool:
		if constant.BoolVal(v) {
			return "true"
		}
		return "false"
	}
	fatal("constant %s.%s has unsupported kind", pkg, name)
	return ""
}

// emitConsts writes a Lean file `name` with namespace GV.Gen.<name> holding
// the listed (package dir, Go constant, Lean name) constants. A missing
// constant is a hard error (the source shape changed).
func emitConsts(name string, wanted [][3]string) {
	l := newLean(name)
	l.pf("namespace GV.Gen.%s\n", name)
	for _, w := range wanted {
		v := constOf(w[0], w[1])
		if v[0] == '"' {
			l.pf("def %s : String := %s -- %s.%s\n", w[2], v, w[0], w[1])
		} else if v == "true" || v == "false" {
			l.pf("def %s : Bool := %s -- %s.%s\n", w[2], v, w[0], w[1])
		} else if v[0] == '-' {
			l.pf("def %s : Int := %s -- %s.%s\n", w[2], v, w[0], w[1])
		} else {
			l.pf("def %s : Nat := %s -- %s.%s\n", w[2], v, w[0], w[1])
		}
	}
	l.pf("end GV.Gen.%s\n", name)
}
