module gvx

go 1.23
