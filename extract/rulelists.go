package main

import (
	"go/ast"
	"strings"
)

// Rule lists: the ordered identifiers in each era's `UtxoValidationRules`
// composite literal.
var ruleEras = []string{"shelley", "allegra", "mary", "alonzo", "babbage", "conway", "dijkstra"}

func ruleList(era string) []string {
	p := loadPkg("ledger/" + era)
	v := findVar(p, "UtxoValidationRules")
	if v == nil {
		fatal("ledger/%s: UtxoValidationRules not found", era)
	}
	cl, ok := v.(*ast.CompositeLit)
	if !ok {
		fatal("ledger/%s: UtxoValidationRules is not a composite literal", era)
	}
	res := []string{}
	for _, e := range cl.Elts {
		switch t := e.(type) {
		case *ast.Ident:
			res = append(res, t.Name)
		case *ast.SelectorExpr:
			if id, ok := t.X.(*ast.Ident); ok {
				res = append(res, id.Name+"."+t.Sel.Name)
				continue
			}
			fatal("ledger/%s: unsupported rule list entry", era)
		default:
			fatal("ledger/%s: unsupported rule list entry at %s", era, fset.Position(e.Pos()))
		}
	}
	return res
}

func init() { registerGen(genRuleLists) }

func genRuleLists() {
	l := newLean("RuleLists")
	l.pf("namespace GV.Gen.RuleLists\n")
	for _, era := range ruleEras {
		rl := ruleList(era)
		q := make([]string, len(rl))
		for i, r := range rl {
			q[i] = "\"" + r + "\""
		}
		l.pf("def %s : List String := [%s]\n", era, strings.Join(q, ", "))
	}
	l.pf("end GV.Gen.RuleLists\n")
}
