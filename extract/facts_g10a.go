package main

// C03 / C02 facts (group g10a): the fast-path conditions of cbor.ListLength and
// cbor.DecodeIdFromList (cbor/decode.go) and the guard of
// StreamDecoder.RawBytes, translated from the Go source into Lean propositions
// over Int (lean/GV/Gen/CborFast.lean). GV.Proofs.CborFastTie proves them
// equivalent to the conditions the hand model uses, so a one-token edit of a
// condition in the Go source (`<` -> `<=`, another constant, another index)
// breaks a proof obligation, while a refactoring that keeps the meaning does not.
//
// Supported expression subset: && || ! < <= > >= == != + - parentheses, integer
// literals, package constants, int()/uint8()/uint() conversions,
// len(<slice param>), <slice param>[<literal>], parameters and locals named in
// `vars`. Anything else is a hard error.

import (
	"go/ast"
	"go/token"
	"strconv"
	"strings"
)

func init() { registerGen(genCborFast) }

type g10aEnv struct {
	pkg   string
	slice string            // name of the byte-slice parameter -> `b i`, len -> `len`
	vars  map[string]string // Go identifier -> Lean variable
	// selector expressions allowed as variables (d.data -> slice)
	sliceSel string
}

func (e *g10aEnv) isSlice(x ast.Expr) bool {
	if id, ok := x.(*ast.Ident); ok && id.Name == e.slice {
		return true
	}
	if se, ok := x.(*ast.SelectorExpr); ok && e.sliceSel != "" {
		if id, ok := se.X.(*ast.Ident); ok && id.Name+"."+se.Sel.Name == e.sliceSel {
			return true
		}
	}
	return false
}

// term translates an integer-valued expression
func (e *g10aEnv) term(x ast.Expr) string {
	switch t := x.(type) {
	case *ast.ParenExpr:
		return "(" + e.term(t.X) + ")"
	case *ast.BasicLit:
		if t.Kind != token.INT {
			break
		}
		v, err := strconv.ParseInt(t.Value, 0, 64)
		if err != nil {
			break
		}
		return "(" + strconv.FormatInt(v, 10) + " : Int)"
	case *ast.Ident:
		if v, ok := e.vars[t.Name]; ok {
			return v
		}
		return "(" + constOf(e.pkg, t.Name) + " : Int)"
	case *ast.CallExpr:
		if id, ok := t.Fun.(*ast.Ident); ok && len(t.Args) == 1 {
			switch id.Name {
			case "int", "uint8", "uint", "uint64", "int64":
				return e.term(t.Args[0])
			case "len":
				if e.isSlice(t.Args[0]) {
					return "len"
				}
			}
		}
	case *ast.IndexExpr:
		if e.isSlice(t.X) {
			if lit, ok := t.Index.(*ast.BasicLit); ok && lit.Kind == token.INT {
				return "(b " + lit.Value + ")"
			}
		}
	case *ast.BinaryExpr:
		switch t.Op {
		case token.ADD:
			return "(" + e.term(t.X) + " + " + e.term(t.Y) + ")"
		case token.SUB:
			return "(" + e.term(t.X) + " - " + e.term(t.Y) + ")"
		}
	}
	fatal("g10a: unsupported integer expression at %s", fset.Position(x.Pos()))
	return ""
}

// prop translates a boolean expression into a Lean Prop
func (e *g10aEnv) prop(x ast.Expr) string {
	switch t := x.(type) {
	case *ast.ParenExpr:
		return "(" + e.prop(t.X) + ")"
	case *ast.UnaryExpr:
		if t.Op == token.NOT {
			return "(¬ " + e.prop(t.X) + ")"
		}
	case *ast.BinaryExpr:
		op := ""
		switch t.Op {
		case token.LAND:
			return "(" + e.prop(t.X) + " ∧ " + e.prop(t.Y) + ")"
		case token.LOR:
			return "(" + e.prop(t.X) + " ∨ " + e.prop(t.Y) + ")"
		case token.LSS:
			op = "<"
		case token.LEQ:
			op = "≤"
		case token.GTR:
			op = ">"
		case token.GEQ:
			op = "≥"
		case token.EQL:
			op = "="
		case token.NEQ:
			op = "≠"
		}
		if op != "" {
			return "(" + e.term(t.X) + " " + op + " " + e.term(t.Y) + ")"
		}
	}
	fatal("g10a: unsupported boolean expression at %s", fset.Position(x.Pos()))
	return ""
}

func g10aMentionsIndex(n ast.Node, slice string, idx string) bool {
	found := false
	ast.Inspect(n, func(m ast.Node) bool {
		if ie, ok := m.(*ast.IndexExpr); ok {
			if id, ok := ie.X.(*ast.Ident); ok && id.Name == slice {
				if lit, ok := ie.Index.(*ast.BasicLit); ok && lit.Value == idx {
					found = true
				}
			}
		}
		return true
	})
	return found
}

// the unique top-level `if` of fd whose body returns something that reads slice[idx]
func g10aFastIf(fd *ast.FuncDecl, slice, idx string) *ast.IfStmt {
	var res []*ast.IfStmt
	for _, st := range fd.Body.List {
		is, ok := st.(*ast.IfStmt)
		if !ok {
			continue
		}
		hit := false
		ast.Inspect(is.Body, func(m ast.Node) bool {
			if r, ok := m.(*ast.ReturnStmt); ok && g10aMentionsIndex(r, slice, idx) {
				hit = true
			}
			return true
		})
		if hit {
			res = append(res, is)
		}
	}
	if len(res) != 1 {
		fatal("g10a: %s: expected exactly one fast-path `if` returning %s[%s], found %d", fd.Name.Name, slice, idx, len(res))
	}
	return res[0]
}

func g10aFirstReturn(n ast.Node) *ast.ReturnStmt {
	var r *ast.ReturnStmt
	ast.Inspect(n, func(m ast.Node) bool {
		if rs, ok := m.(*ast.ReturnStmt); ok && r == nil {
			r = rs
		}
		return r == nil
	})
	return r
}

func genCborFast() {
	p := loadPkg("cbor")
	l := newLean("CborFast")
	l.pf("set_option linter.unusedVariables false\n")
	l.pf("namespace GV.Gen.CborFast\n")
	l.pf("-- `b i` = cborData[i] (as an integer), `len` = len(cborData)\n")

	// ---- ListLength
	ll := findFunc(p, "", "ListLength")
	if ll == nil {
		fatal("g10a: cbor.ListLength not found")
	}
	slice := ll.Type.Params.List[0].Names[0].Name
	env := &g10aEnv{pkg: "cbor", slice: slice, vars: map[string]string{}}
	// first statement: the emptiness guard
	first, ok := ll.Body.List[0].(*ast.IfStmt)
	if !ok {
		fatal("g10a: ListLength: first statement is not the length guard")
	}
	l.pf("/-- ListLength: guard before any byte is read -/\n")
	l.pf("def listLengthEmpty (len : Int) : Prop := %s\n", env.prop(first.Cond))
	fast := g10aFastIf(ll, slice, "0")
	l.pf("/-- ListLength: condition of the fast path -/\n")
	l.pf("def listLengthFastCond (b : Nat → Int) : Prop := %s\n", env.prop(fast.Cond))
	ret := g10aFirstReturn(fast.Body)
	if ret == nil || len(ret.Results) != 2 {
		fatal("g10a: ListLength: fast path return not understood")
	}
	l.pf("/-- ListLength: value returned by the fast path -/\n")
	l.pf("def listLengthFastVal (b : Nat → Int) : Int := %s\n", env.term(ret.Results[0]))

	// ---- DecodeIdFromList
	di := findFunc(p, "", "DecodeIdFromList")
	if di == nil {
		fatal("g10a: cbor.DecodeIdFromList not found")
	}
	slice = di.Type.Params.List[0].Names[0].Name
	env = &g10aEnv{pkg: "cbor", slice: slice, vars: map[string]string{"listLen": "listLen"}}
	first, ok = di.Body.List[0].(*ast.IfStmt)
	if !ok {
		fatal("g10a: DecodeIdFromList: first statement is not the length guard")
	}
	l.pf("/-- DecodeIdFromList: guard before any byte is read -/\n")
	l.pf("def decodeIdTooShort (len : Int) : Prop := %s\n", env.prop(first.Cond))
	// the `listLen == 0` rejection
	var zero *ast.IfStmt
	for _, st := range di.Body.List {
		if is, ok := st.(*ast.IfStmt); ok && is.Init == nil {
			if be, ok := is.Cond.(*ast.BinaryExpr); ok {
				if id, ok := be.X.(*ast.Ident); ok && id.Name == "listLen" && be.Op == token.EQL {
					zero = is
				}
			}
		}
	}
	if zero == nil {
		fatal("g10a: DecodeIdFromList: empty-list rejection not found")
	}
	l.pf("def decodeIdEmpty (listLen : Int) : Prop := %s\n", env.prop(zero.Cond))
	outer := g10aFastIf(di, slice, "1")
	l.pf("/-- DecodeIdFromList: outer condition of the byte-1 shortcut -/\n")
	l.pf("def decodeIdOuterCond (listLen : Int) (b : Nat → Int) : Prop := %s\n", env.prop(outer.Cond))
	if len(outer.Body.List) != 1 {
		fatal("g10a: DecodeIdFromList: shortcut body is not a single nested if")
	}
	inner, ok := outer.Body.List[0].(*ast.IfStmt)
	if !ok || inner.Else != nil || outer.Else != nil {
		fatal("g10a: DecodeIdFromList: shortcut body is not a single nested if")
	}
	l.pf("/-- DecodeIdFromList: inner condition of the byte-1 shortcut -/\n")
	l.pf("def decodeIdInnerCond (b : Nat → Int) : Prop := %s\n", env.prop(inner.Cond))
	ret = g10aFirstReturn(inner.Body)
	if ret == nil || len(ret.Results) != 2 {
		fatal("g10a: DecodeIdFromList: shortcut return not understood")
	}
	l.pf("/-- DecodeIdFromList: value returned by the shortcut -/\n")
	l.pf("def decodeIdFastVal (b : Nat → Int) : Int := %s\n", env.term(ret.Results[0]))

	// ---- StreamDecoder.RawBytes guards
	rb := findFunc(p, "*StreamDecoder", "RawBytes")
	if rb == nil {
		rb = findFunc(p, "StreamDecoder", "RawBytes")
	}
	if rb == nil {
		fatal("g10a: StreamDecoder.RawBytes not found")
	}
	recv := rb.Recv.List[0].Names[0].Name
	env = &g10aEnv{pkg: "cbor", slice: "", sliceSel: recv + ".data", vars: map[string]string{"offset": "offset", "length": "length", "end": "endv"}}
	conds := []string{}
	endDef := ""
	for _, st := range rb.Body.List {
		switch s := st.(type) {
		case *ast.IfStmt:
			r := g10aFirstReturn(s.Body)
			if r == nil || len(r.Results) != 1 {
				fatal("g10a: RawBytes: guard body not understood")
			}
			if id, ok := r.Results[0].(*ast.Ident); !ok || id.Name != "nil" {
				fatal("g10a: RawBytes: guard does not return nil")
			}
			conds = append(conds, env.prop(s.Cond))
		case *ast.AssignStmt:
			if len(s.Lhs) == 1 && len(s.Rhs) == 1 {
				if id, ok := s.Lhs[0].(*ast.Ident); ok && id.Name == "end" {
					endDef = env.term(s.Rhs[0])
					continue
				}
			}
			fatal("g10a: RawBytes: unexpected assignment")
		case *ast.ReturnStmt:
			se, ok := s.Results[0].(*ast.SliceExpr)
			if !ok || !env.isSlice(se.X) {
				fatal("g10a: RawBytes: final return is not a slice of the data")
			}
			lo, hi := env.term(se.Low), env.term(se.High)
			l.pf("/-- RawBytes: bounds of the final slice expression data[lo:hi] -/\n")
			l.pf("def rawBytesLo (offset length endv : Int) : Int := %s\n", lo)
			l.pf("def rawBytesHi (offset length endv : Int) : Int := %s\n", hi)
		default:
			fatal("g10a: RawBytes: unexpected statement")
		}
	}
	if endDef == "" || len(conds) == 0 {
		fatal("g10a: RawBytes: shape not understood")
	}
	l.pf("/-- RawBytes: `end := offset + length` before wrap-around -/\n")
	l.pf("def rawBytesEnd (offset length : Int) : Int := %s\n", endDef)
	l.pf("/-- RawBytes: the disjunction of the guards that return nil (`endv` = the wrapped value of end) -/\n")
	l.pf("def rawBytesReject (offset length endv len : Int) : Prop := %s\n", strings.Join(conds, " ∨ "))
	l.pf("end GV.Gen.CborFast\n")
}
